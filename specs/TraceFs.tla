-------------------------------- MODULE TraceFs --------------------------------
(***************************************************************************)
(* The durability discipline of C14, checked on the file-system calls the   *)
(* real process made (recorded with strace, so no hook can misreport):      *)
(* "nothing is acknowledged, and no file is deleted or relied upon, before  *)
(* the data that replaces it has been synced".                              *)
(*                                                                         *)
(* Events (ndjson, env TRACE), in the order the kernel completed them:      *)
(*   create f kind | write f n | fsync f | rename f f2 kind2 | unlink f     *)
(*   ack n           (the harness observed Commit/Update returning nil)     *)
(*   phase p         "recovery" while Open runs (single-threaded), else "run" *)
(* kind: "wal" = a .log file, "table" = a .db file, "tmp" = anything else    *)
(*                                                                         *)
(*   ack      every wal file is synced up to its written length             *)
(*   rename   a file that becomes a table is completely synced              *)
(*   unlink   of a wal or a table: every table that remains is completely   *)
(*            synced; during recovery (re-logging of old wal files, single   *)
(*            goroutine) also every wal that remains - they hold whatever    *)
(*            replaces the deleted file.  While the engine runs, the active  *)
(*            wal may carry the unsynced tail of a commit in flight, which   *)
(*            replaces nothing.                                              *)
(***************************************************************************)
EXTENDS Integers, Sequences, FiniteSets, TLC, Json, IOUtils

Trace == ndJsonDeserialize(IOEnv.TRACE)
VARIABLES files,    \* name -> [kind, written, synced]
          phase,
          l
vars == <<files, phase, l>>
E == Trace[l]
IsEv(name) == l <= Len(Trace) /\ E.ev = name /\ l' = l + 1

Init == files = <<>> /\ phase = "run" /\ l = 1
Synced(f) == files[f].synced = files[f].written
Durable == {f \in DOMAIN files : files[f].kind \in {"wal", "table"}}

TReset  == IsEv("reset") /\ files' = <<>> /\ phase' = "run"
TPhase  == IsEv("phase") /\ phase' = E.p /\ UNCHANGED files
TCreate == IsEv("create") /\ files' = [f \in (DOMAIN files) \cup {E.f} |->
                                         IF f = E.f THEN [kind |-> E.kind, written |-> 0, synced |-> 0] ELSE files[f]]
           /\ UNCHANGED phase
TWrite  == IsEv("write") /\ E.f \in DOMAIN files /\ files' = [files EXCEPT ![E.f].written = @ + E.n] /\ UNCHANGED phase
TFsync  == IsEv("fsync") /\ E.f \in DOMAIN files /\ files' = [files EXCEPT ![E.f].synced = files[E.f].written] /\ UNCHANGED phase
TRename == /\ IsEv("rename") /\ E.f \in DOMAIN files
           /\ E.kind2 = "table" => Synced(E.f)                                 \* complete before it is relied upon
           /\ files' = [f \in ((DOMAIN files) \ {E.f}) \cup {E.f2} |->
                          IF f = E.f2 THEN [files[E.f] EXCEPT !.kind = E.kind2] ELSE files[f]]
           /\ UNCHANGED phase
TUnlink == /\ IsEv("unlink") /\ E.f \in DOMAIN files
           /\ files[E.f].kind \in {"wal", "table"} =>
                 \A g \in Durable \ {E.f} : (files[g].kind = "table" \/ phase = "recovery") => Synced(g)
           /\ files' = [f \in (DOMAIN files) \ {E.f} |-> files[f]]
           /\ UNCHANGED phase
TAck    == /\ IsEv("ack")
           /\ \A f \in DOMAIN files : files[f].kind = "wal" => Synced(f)
           /\ UNCHANGED <<files, phase>>
Next == TReset \/ TPhase \/ TCreate \/ TWrite \/ TFsync \/ TRename \/ TUnlink \/ TAck
TSpec == Init /\ [][Next]_vars

ASSUME TLCSet(1, 0)
HighWater == /\ TLCSet(1, IF TLCGet(1) < l THEN l ELSE TLCGet(1))
             /\ (l > Len(Trace)) => /\ PrintT(<<"HIGHWATER", l, Len(Trace)>>)
                                    /\ TLCSet("exit", TRUE)
Accepted  == /\ PrintT(<<"HIGHWATER", TLCGet(1), Len(Trace)>>)
             /\ TLCGet(1) = Len(Trace) + 1
=============================================================================
