-------------------------------- MODULE Filter --------------------------------
(***************************************************************************)
(* pkg/filter (C16): a bloom filter of M bits and H hash functions.  The     *)
(* hash functions are ARBITRARY functions into 0..M-1 (chosen in the initial *)
(* state), so the result holds for every hashing scheme: a key that was      *)
(* added is never denied.  Add and Contains must use the same functions and  *)
(* the same reduction modulo the bitset length.                              *)
(*   BugOtherSeeds     Contains uses differently seeded functions            *)
(*   BugEarlyReset     the hash state is not reset between keys in Add: the  *)
(*                     second key is hashed as (first ++ second)             *)
(*   BugBuildFromVersioned  the filter is built from versioned keys but      *)
(*                     queried with user keys (level.go / recovery)          *)
(***************************************************************************)
EXTENDS Integers, FiniteSets, Sequences

CONSTANTS KeysU, M, H, BugOtherSeeds, BugBuildFromVersioned

VARIABLES hash,     \* [1..H -> [Strings -> 0..M-1]] for both user keys and versioned keys
          bits, added

\* the strings the filter may see: user keys and versioned keys
User(k) == <<k, 0>>
Versioned == {<<k, 1>> : k \in KeysU}
Strings == {User(k) : k \in KeysU} \cup (IF BugBuildFromVersioned THEN Versioned ELSE {})
vars == <<hash, bits, added>>

Init == /\ hash \in [1..(IF BugOtherSeeds THEN 2 * H ELSE H) -> [Strings -> 0..(M - 1)]]
        /\ bits = {} /\ added = {}
AddStr(k) == IF BugBuildFromVersioned THEN <<k, 1>> ELSE User(k)
Add(k) == /\ k \notin added
          /\ bits' = bits \cup {hash[i][AddStr(k)] : i \in 1..H}
          /\ added' = added \cup {k}
          /\ UNCHANGED hash
Contains(k) == \A i \in 1..H : hash[IF BugOtherSeeds THEN H + i ELSE i][User(k)] \in bits
Next == \E k \in KeysU : Add(k)
Spec == Init /\ [][Next]_vars
NoFalseNegative == \A k \in added : Contains(k)
=============================================================================
