-------------------------------- MODULE Codec --------------------------------
(***************************************************************************)
(* table/data.go Data.Encode / Data.Decode (C11) as a case analysis.  An     *)
(* entry is abstracted to what the format can distinguish: the length of     *)
(* the prefix it shares with its predecessor, the length of the rest of the  *)
(* key, the value length, the tombstone flag and a version class.  The       *)
(* three length fields are written with W bits (the code: 16; the model: a   *)
(* scaled-down W so that TLC can enumerate the boundary).  Decode reads the  *)
(* fields back and rebuilds key = prevKey[:lcp] ++ suffix.                    *)
(*                                                                         *)
(* RoundTrip: Decode(Encode(x)) = x  -  holds iff every length fits in W     *)
(* bits; TLC pinpoints the truncation otherwise (defect D11 for W = 16).     *)
(*   BugLcpAgainstFirst   the shared prefix is computed against the first    *)
(*                        key of the block but applied to the previous one   *)
(*   BugTombVersionSwapped the decoder reads version before tombstone        *)
(***************************************************************************)
EXTENDS Integers, Sequences, FiniteSets

CONSTANTS W, MaxLen, MaxEntries, CheckFits, BugLcpAgainstFirst, BugTombVersionSwapped

Cap == 2 ^ W                         \* a field of W bits holds 0 .. Cap-1
Trunc(n) == n % Cap

\* keys are sequences over a two-letter alphabet, so that prefixes are real
Alpha == {1, 2}
KeysOf(n) == UNION {[1..m -> Alpha] : m \in 1..n}
Entry == [key : KeysOf(MaxLen), vlen : 0..MaxLen, tomb : BOOLEAN, ver : {0, 7}]

LCP(a, b) == LET n == IF Len(a) < Len(b) THEN Len(a) ELSE Len(b)
                 eq == {i \in 0..n : \A j \in 1..i : a[j] = b[j]} IN
             CHOOSE i \in eq : \A j \in eq : j <= i

\* the encoded stream: one record of fields per entry (bytes are abstracted to lengths + content)
EncodeOne(e, prev, first) ==
    LET base == IF BugLcpAgainstFirst THEN first ELSE prev
        lcp  == LCP(e.key, base)
        suf  == SubSeq(e.key, lcp + 1, Len(e.key)) IN
    [lcp |-> Trunc(lcp), slen |-> Trunc(Len(suf)), suffix |-> suf, vlen |-> Trunc(e.vlen), value |-> e.vlen,
     tomb |-> e.tomb, ver |-> e.ver]
RECURSIVE Encode(_, _, _)
Encode(es, prev, first) == IF es = <<>> THEN <<>>
                           ELSE <<EncodeOne(es[1], prev, first)>> \o Encode(Tail(es), es[1].key, first)

Desync == [key |-> <<>>, vlen |-> -1, tomb |-> FALSE, ver |-> -1]     \* the decoder lost track of the stream
\* the decoder trusts the length fields: it takes slen symbols of the suffix and vlen bytes of value;
\* if a length was truncated the following bytes are misread ("desync")
DecodeOne(r, prev) ==
    IF r.slen # Len(r.suffix) \/ r.vlen # r.value \/ r.lcp > Len(prev) THEN [desync |-> TRUE, e |-> Desync]
    ELSE [desync |-> FALSE,
          e |-> [key |-> SubSeq(prev, 1, r.lcp) \o r.suffix, vlen |-> r.vlen,
                 tomb |-> IF BugTombVersionSwapped THEN (r.ver # 0) ELSE r.tomb,
                 ver |-> IF BugTombVersionSwapped THEN (IF r.tomb THEN 1 ELSE 0) ELSE r.ver]]
RECURSIVE Decode(_, _)
Decode(rs, prev) == IF rs = <<>> THEN <<>>
                    ELSE LET d == DecodeOne(rs[1], prev) IN
                         IF d.desync THEN <<Desync>> ELSE <<d.e>> \o Decode(Tail(rs), d.e.key)

VARIABLE block
Init == block \in UNION {[1..n -> Entry] : n \in 1..MaxEntries}
Next == UNCHANGED block
Spec == Init /\ [][Next]_block

Fits == \A i \in DOMAIN block : Len(block[i].key) < Cap /\ block[i].vlen < Cap
RoundTrip == (CheckFits => Fits) => Decode(Encode(block, <<>>, block[1].key), <<>>) = block
\* with CheckFits = FALSE the property demands the round trip for every input, which is C11 as
\* stated: TLC then reports the truncation (known finding D11)
=============================================================================
