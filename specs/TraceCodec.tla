------------------------------ MODULE TraceCodec ------------------------------
(***************************************************************************)
(* CONTRACT of the on-disk encodings (C11) as a trace validator over the     *)
(* results of real encode/decode calls:                                      *)
(*   RoundTrip codec equal maxlen   decode(encode(x)) compared with x field  *)
(*                                  by field (maxlen: longest key/value)     *)
(*   Stable    codec equal          the bytes an encoder returned, compared  *)
(*                                  with a private copy after other          *)
(*                                  goroutines encoded and logged            *)
(* The contract: equal, always.                                              *)
(***************************************************************************)
EXTENDS Integers, Sequences, TLC, Json, IOUtils
Trace == ndJsonDeserialize(IOEnv.TRACE)
VARIABLE l
E == Trace[l]
Init == l = 1
Next == /\ l <= Len(Trace)
        /\ E.ev \in {"RoundTrip", "Stable"}
        /\ E.equal
        /\ l' = l + 1
TSpec == Init /\ [][Next]_l
ASSUME TLCSet(1, 0)
HighWater == /\ TLCSet(1, IF TLCGet(1) < l THEN l ELSE TLCGet(1))
             /\ (l > Len(Trace)) => /\ PrintT(<<"HIGHWATER", l, Len(Trace)>>)
                                    /\ TLCSet("exit", TRUE)
Accepted  == /\ PrintT(<<"HIGHWATER", TLCGet(1), Len(Trace)>>)
             /\ TLCGet(1) = Len(Trace) + 1
=============================================================================
