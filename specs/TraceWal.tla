------------------------------ MODULE TraceWal ------------------------------
(***************************************************************************)
(* Binding of WalLog.tla to wal/wal.go: the harness writes real logs with   *)
(* WAL.Write (random batches), truncates a copy at EVERY byte offset,       *)
(* opens it with wal.Open and calls WAL.Read.  One event per (log, cut):    *)
(*   bends  file size after each Write call (= fsync boundaries, measured), *)
(*   bcnt   number of records written up to that boundary                   *)
(*   cut    the surviving length in bytes                                   *)
(*   got    number of entries Read returned, err whether it failed,         *)
(*   same   whether the entries returned equal the first `got` written      *)
(* The judgement is the property's (C14), independent of the record format: *)
(* Read does not fail, returns a prefix of what was written, and at least   *)
(* every record of every Write that lies completely before the cut (those   *)
(* may have been acknowledged).  With the current format the stronger       *)
(* WalLog contract (exactly the whole records, 8-byte headers) holds too;   *)
(* a disagreement there alone is reported as drift by the harness.          *)
(***************************************************************************)
EXTENDS Integers, Sequences, TLC, Json, IOUtils
Hdr == 8
RECURSIVE Whole(_, _)
Whole(s, c) == IF s = <<>> \/ Hdr + Head(s) > c THEN 0 ELSE 1 + Whole(Tail(s), c - Hdr - Head(s))
RECURSIVE Floor(_, _, _)
Floor(ends, cnt, c) == IF ends = <<>> \/ Head(ends) > c THEN 0
                       ELSE LET r == Floor(Tail(ends), Tail(cnt), c) IN IF r > Head(cnt) THEN r ELSE Head(cnt)
Trace == ndJsonDeserialize(IOEnv.TRACE)
VARIABLE l
E == Trace[l]
Init == l = 1
Next == /\ l <= Len(Trace)
        /\ E.ev = "cut"
        /\ ~E.err /\ E.same
        /\ E.got >= Floor(E.bends, E.bcnt, E.cut)
        /\ l' = l + 1
TSpec == Init /\ [][Next]_l
ASSUME TLCSet(1, 0)
HighWater == /\ TLCSet(1, IF TLCGet(1) < l THEN l ELSE TLCGet(1))
             /\ (l > Len(Trace)) => /\ PrintT(<<"HIGHWATER", l, Len(Trace)>>)
                                    /\ TLCSet("exit", TRUE)
Accepted  == /\ PrintT(<<"HIGHWATER", TLCGet(1), Len(Trace)>>)
             /\ TLCGet(1) = Len(Trace) + 1
=============================================================================
