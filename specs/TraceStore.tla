------------------------------ MODULE TraceStore ------------------------------
(***************************************************************************)
(* IMPLEMENTATION-LEVEL trace validation: the merged stream of API events    *)
(* and hook events of a steered single-writer run of the real engine is      *)
(* replayed on Store.tla - every hook is the action of the same name - and   *)
(* after each step the scalars the hooks report (length of the immutable     *)
(* list, of the flush queue) and EVERY value a Get returned are compared     *)
(* with the state of the specification: a Get must return what the spec's    *)
(* code-shaped Search (memtable, immutables newest first, tables) finds at    *)
(* the reader's snapshot.  A rejection here with the contract (AbsTxn)       *)
(* satisfied means the code no longer has the shape of the specification     *)
(* (drift), not that a property is violated.                                 *)
(*                                                                         *)
(* Events (ndjson, env TRACE): reset | begin w | put w k v | drop w |         *)
(*   applied | rotated n | enq n | done | take n | flushed | discard n |      *)
(*   compacted | removed n | get w k v                                       *)
(***************************************************************************)
EXTENDS Store, TLC, Json, IOUtils

Trace == ndJsonDeserialize(IOEnv.TRACE)
Ws == 1..5
VARIABLES l,
          buf,     \* per worker: the write buffer, a set of [k, v] (v = 0: delete)
          snap,    \* per worker: snapshot = newest finished commit when Begin returned
          vals,    \* value id of every committed version: set of [k, ts, v]
          cmark    \* discard mark reported by the compaction since the last flush (-1: no compaction ran)
tvars == <<vars, l, buf, snap, vals, cmark>>
E == Trace[l]
IsEv(name) == l <= Len(Trace) /\ E.ev = name /\ l' = l + 1

TInit == Init /\ l = 1 /\ buf = [w \in Ws |-> {}] /\ snap = [w \in Ws |-> 0] /\ vals = {} /\ cmark = -1
Same == UNCHANGED <<buf, snap, vals, cmark>>

TReset == /\ IsEv("reset")
          /\ nextTs' = 1 /\ lastDone' = 0 /\ hist' = {} /\ mem' = {} /\ imm' = <<>> /\ q' = <<>> /\ l0' = {} /\ l1' = {}
          /\ cm' = [pc |-> "idle", id |-> 0] /\ fl' = [pc |-> "wait", item |-> 0] /\ readers' = {} /\ wm' = 0
          /\ nimm' = 0 /\ lost' = FALSE
          /\ buf' = [w \in Ws |-> {}] /\ snap' = [w \in Ws |-> 0] /\ vals' = {} /\ cmark' = -1
TBegin == IsEv("begin") /\ snap' = [snap EXCEPT ![E.w] = lastDone] /\ buf' = [buf EXCEPT ![E.w] = {}]
          /\ UNCHANGED <<vars, vals, cmark>>
TPut == IsEv("put") /\ buf' = [buf EXCEPT ![E.w] = {x \in @ : x.k # E.k} \cup {[k |-> E.k, v |-> E.v]}]
        /\ UNCHANGED <<vars, snap, vals, cmark>>
TDrop == IsEv("drop") /\ buf' = [buf EXCEPT ![E.w] = {}] /\ UNCHANGED <<vars, snap, vals, cmark>>
\* memtable.set: the whole buffer of the committing worker (the single writer is worker 1)
TApplied == /\ IsEv("applied")
            /\ Cardinality(buf[1]) = E.n
            /\ ApplyB({[k |-> x.k, ts |-> nextTs, tomb |-> (x.v = 0)] : x \in buf[1]})
            /\ vals' = vals \cup {[k |-> x.k, ts |-> nextTs, v |-> x.v] : x \in buf[1]}
            /\ buf' = [buf EXCEPT ![1] = {}] /\ UNCHANGED <<snap, cmark>>
TRotated == IsEv("rotated") /\ RotateStep /\ Len(imm') = E.n /\ Same
\* With an unbuffered (or just drained) queue the receiving flusher can report "take" before the
\* sending committer reports "enq": the hand-off is one rendezvous, seen from both sides.
TEnq == /\ IsEv("enq") /\ cm.pc \in {"enq", "handed"}
        /\ q' = (IF cm.pc = "enq" THEN Append(q, cm.id) ELSE q) /\ cm' = [cm EXCEPT !.pc = "done"]
        /\ UNCHANGED <<nextTs, lastDone, hist, mem, imm, l0, l1, fl, readers, wm, nimm, lost>> /\ Same
TDone == IsEv("done") /\ DoneStep /\ Same
TTake == /\ IsEv("take")
         /\ IF q = <<>> /\ cm.pc = "enq" /\ fl.pc = "wait"
            THEN /\ fl' = [pc |-> "flush", item |-> cm.id] /\ cm' = [cm EXCEPT !.pc = "handed"]
                 /\ UNCHANGED <<nextTs, lastDone, hist, mem, imm, q, l0, l1, readers, wm, nimm, lost>>
            ELSE FlTake
         /\ Same
TFlushed == IsEv("flushed") /\ FlFlush /\ cmark' = -1 /\ UNCHANGED <<buf, snap, vals>>
TDiscard == IsEv("discard") /\ cmark' = (IF E.n > cmark THEN E.n ELSE cmark) /\ UNCHANGED <<vars, buf, snap, vals>>
TCompacted == IsEv("compacted") /\ CompactStep(cmark >= 0, IF cmark >= 0 THEN cmark ELSE 0) /\ Same
TRemoved == IsEv("removed") /\ FlRemove /\ Len(imm') = E.n /\ ~lost' /\ Same
\* the judgement: the value the real Get returned is the one the spec's search finds
TGet == /\ IsEv("get")
        /\ LET hit == Search(E.k, snap[E.w])
               own == {x \in buf[E.w] : x.k = E.k} IN
           IF own # {} THEN E.v = (CHOOSE x \in own : TRUE).v
           ELSE IF hit = None \/ hit.tomb THEN E.v = 0
           ELSE E.v = (CHOOSE x \in vals : x.k = hit.k /\ x.ts = hit.ts).v
        /\ UNCHANGED <<vars, buf, snap, vals, cmark>>
TNext == TReset \/ TBegin \/ TPut \/ TDrop \/ TApplied \/ TRotated \/ TEnq \/ TDone \/ TTake \/ TFlushed
         \/ TDiscard \/ TCompacted \/ TRemoved \/ TGet
TSpec == TInit /\ [][TNext]_tvars

ASSUME TLCSet(1, 0)
HighWater == /\ TLCSet(1, IF TLCGet(1) < l THEN l ELSE TLCGet(1))
             /\ (l > Len(Trace)) => /\ PrintT(<<"HIGHWATER", l, Len(Trace)>>)
                                    /\ TLCSet("exit", TRUE)
Accepted  == /\ PrintT(<<"HIGHWATER", TLCGet(1), Len(Trace)>>)
             /\ TLCGet(1) = Len(Trace) + 1
=============================================================================
