-------------------------------- MODULE Levels --------------------------------
(***************************************************************************)
(* IMPLEMENTATION-SHAPED specification of table lookup and compaction       *)
(* (level.go searchLowerBound / checkAndCompact / compactL0 / compactLN /   *)
(* discardStaleEntries, table.Build, table.Index, table.Data, pkg/filter).  *)
(*                                                                         *)
(* A version is [k, ts, tomb]; a table is what table.Build makes of a set   *)
(* of versions: the entries sorted by CompareKeys (key ascending, version   *)
(* descending), cut into data blocks of BlockSize entries, one index entry  *)
(* (StartKey, EndKey) per block, and a bloom filter over the user keys that *)
(* may answer "maybe" for keys in FalsePos.                                 *)
(*                                                                         *)
(* Lookup of key@ts in one table, as the code does it:                      *)
(*   filter says no                      -> nothing                         *)
(*   block := first block with EndKey >= key@ts   (Index.SearchLowerBound)  *)
(*   entry := first entry of that block >= key@ts (Data.LowerBound)         *)
(*   accepted only if it has the same user key                              *)
(* The level manager keeps the best (largest version) hit over all tables.  *)
(*                                                                         *)
(* Initial states: every sequence of up to MaxTables flushed tables over    *)
(* the universe Keys x Versions (each version absent, live or tombstone),   *)
(* every discard watermark, every block size.  Next: the steps of           *)
(* checkAndCompact (cascading).                                             *)
(*                                                                         *)
(*   C10  LookupCorrect: the level lookup = newest version <= ts of the key *)
(*        over all stored versions, in every state                          *)
(*   C09  CompactionPreserves: for every ts >= watermark the answer never   *)
(*        changes; OnlyShadowedDisappear                                    *)
(***************************************************************************)
EXTENDS Integers, Sequences, FiniteSets, TLC, Json

CONSTANTS K, T, MaxTables, L0Target, Ratio,
          BugPointBlockSearch,   \* D2: block chosen by point search (last block with StartKey <= target)
          BugFirstHitWins,       \* D1: the first table with any lower-bound entry wins, even of another key
          BugDropTombstones,     \* D3: the merge drops tombstones
          BugDiscardAboveMark,   \* discard keeps only the newest version per key, whatever the watermark
          BugStopAtFirstLevel    \* lookup stops at the first level that has a hit

Keys == 1..K
Vers == 1..T
Universe == Keys \X Vers

VARIABLES levels,    \* Seq(Seq(table)), a table = [vers: set of [k, ts, tomb], idx]
          wm,        \* version-discard watermark (oracle.discardAtOrBelow)
          bs,        \* entries per data block
          fp,        \* set of keys the bloom filters answer "maybe" for although absent
          initial,   \* ghost: all versions flushed initially
          nsteps

vars == <<levels, wm, bs, fp, initial, nsteps>>

VLess(a, b) == a.k < b.k \/ (a.k = b.k /\ a.ts > b.ts)        \* types.CompareKeys
Target(k, ts) == [k |-> k, ts |-> ts, tomb |-> FALSE]
RECURSIVE Sorted(_)
Sorted(S) == IF S = {} THEN <<>>
             ELSE LET mn == CHOOSE x \in S : \A y \in S : x = y \/ VLess(x, y) IN <<mn>> \o Sorted(S \ {mn})

\* ------------------------------------------------------------------ table structure (table.Build)
\* the blocks are fixed when the table is built (they are what the index block describes)
BlocksOf(S, sz) == LET s == Sorted(S)
                       n == Len(s)
                       nb == (n + sz - 1) \div sz IN
                   [b \in 1..nb |-> SubSeq(s, (b - 1) * sz + 1, IF b * sz < n THEN b * sz ELSE n)]

\* first block whose EndKey >= target (0 = none)
BlockLB(bl, tg) == LET ok == {b \in DOMAIN bl : ~VLess(bl[b][Len(bl[b])], tg)} IN
                   IF ok = {} THEN 0 ELSE CHOOSE b \in ok : \A c \in ok : b <= c
\* the pinned point search: last block with StartKey <= target, nothing if target > last EndKey
BlockPoint(bl, tg) == IF bl = <<>> \/ VLess(bl[Len(bl)][Len(bl[Len(bl)])], tg) THEN 0
                      ELSE LET ok == {b \in DOMAIN bl : ~VLess(tg, bl[b][1])} IN
                           IF ok = {} THEN 0 ELSE CHOOSE b \in ok : \A c \in ok : b >= c
\* first entry of the block >= target (Data.LowerBound); <<>> if none
EntryLB(blk, tg) == LET ok == {i \in DOMAIN blk : ~VLess(blk[i], tg)} IN
                    IF ok = {} THEN <<>> ELSE <<blk[CHOOSE i \in ok : \A j \in ok : i <= j]>>

FilterSays(tb, k) == (\E v \in tb.vers : v.k = k) \/ k \in fp

\* lower-bound entry of one table (any key), <<>> if none
TableLB(tb, k, ts) ==
    IF ~FilterSays(tb, k) THEN <<>>
    ELSE LET bl == tb.blocks
             b  == IF BugPointBlockSearch THEN BlockPoint(bl, Target(k, ts)) ELSE BlockLB(bl, Target(k, ts)) IN
         IF b = 0 THEN <<>> ELSE EntryLB(bl[b], Target(k, ts))

AllTables == LET RECURSIVE Flat(_) Flat(i) == IF i > Len(levels) THEN <<>> ELSE levels[i] \o Flat(i + 1) IN Flat(1)

None == [k |-> 0, ts |-> 0, tomb |-> FALSE]
\* levelManager.searchLowerBound + the same-key test of its caller
RECURSIVE Best(_, _, _, _)
Best(tabs, i, k, ts) ==
    IF i > Len(tabs) THEN None
    ELSE LET hit == TableLB(tabs[i], k, ts)
             rest == Best(tabs, i + 1, k, ts) IN
         IF BugFirstHitWins
         THEN IF hit # <<>> THEN (IF hit[1].k = k THEN hit[1] ELSE None) ELSE rest
         ELSE IF hit # <<>> /\ hit[1].k = k /\ hit[1].ts > rest.ts THEN hit[1] ELSE rest
RECURSIVE ByLevel(_, _, _)
ByLevel(l, k, ts) == IF l > Len(levels) THEN None
                     ELSE LET h == Best(levels[l], 1, k, ts) IN IF h # None THEN h ELSE ByLevel(l + 1, k, ts)
LevelSearch(k, ts) == IF BugStopAtFirstLevel THEN ByLevel(1, k, ts) ELSE Best(AllTables, 1, k, ts)

\* ------------------------------------------------------------------ the contract
AbsLookup(S, k, ts) == LET c == {v \in S : v.k = k /\ v.ts <= ts} IN
                       IF c = {} THEN None ELSE CHOOSE v \in c : \A u \in c : u.ts <= v.ts
Stored == UNION {tb.vers : tb \in {AllTables[i] : i \in DOMAIN AllTables}}

\* ------------------------------------------------------------------ initial states
TableContents == {S \in SUBSET (Universe \X BOOLEAN) :
                    S # {} /\ \A x, y \in S : x[1] = y[1] => x = y}       \* a version is live or tombstone, not both
MkVers(S) == {[k |-> x[1][1], ts |-> x[1][2], tomb |-> x[2]] : x \in S}

Init == /\ \E n \in 1..MaxTables : \E c \in [1..n -> TableContents] :
              \* the same version in two tables carries the same flag (duplicates arise after a crash)
              /\ \A i, j \in 1..n : \A x \in c[i], y \in c[j] : x[1] = y[1] => x = y
              /\ \E b \in 1..3 :
                   /\ bs = b
                   /\ levels = <<[i \in 1..n |-> [vers |-> MkVers(c[i]), idx |-> i - 1, blocks |-> BlocksOf(MkVers(c[i]), b)]]>>
              /\ initial = UNION {MkVers(c[i]) : i \in 1..n}
        /\ wm \in 0..T
        /\ fp \in {{}, Keys}
        /\ nsteps = 0

\* ------------------------------------------------------------------ compaction (checkAndCompact)
Pow(x, n) == IF n = 0 THEN 1 ELSE IF n = 1 THEN x ELSE x * x       \* levels 0..2 only
Limit(l) == L0Target * Pow(Ratio, l - 1)                             \* l is 1-based: level index l-1
TabStart(tb) == tb.blocks[1][1]
TabEnd(tb) == LET b == tb.blocks[Len(tb.blocks)] IN b[Len(b)]
Overlaps(tb, lo, hi) == ~VLess(hi, TabStart(tb)) /\ ~VLess(TabEnd(tb), lo)      \* overlapLN

\* discardStaleEntries: every version above the mark, and per key the newest one at or below it
Discard(S) == IF wm = 0 THEN S
              ELSE IF BugDiscardAboveMark
              THEN {v \in S : \A u \in S : u.k = v.k => u.ts <= v.ts}
              ELSE {v \in S : v.ts > wm \/ \A u \in S : (u.k = v.k /\ u.ts <= wm) => u.ts <= v.ts}
Merge(S) == IF BugDropTombstones THEN {v \in S : ~v.tomb} ELSE S

NextIdx(l) == IF l > Len(levels) \/ levels[l] = <<>> THEN 0
              ELSE 1 + (CHOOSE m \in {levels[l][i].idx : i \in DOMAIN levels[l]} :
                           \A o \in {levels[l][i].idx : i \in DOMAIN levels[l]} : o <= m)

\* one pass of the loop body of checkAndCompact for level l (1-based)
CompactLevel(l) ==
    /\ l <= Len(levels) /\ Len(levels[l]) > Limit(l)
    /\ LET src  == levels[l]
           \* L0: the tables overlapping the front table; LN: the front table
           front == src[1]
           ins  == IF l = 1 THEN {i \in DOMAIN src : Overlaps(src[i], TabStart(front), TabEnd(front))} ELSE {1}
           insT == {src[i] : i \in ins}
           lo   == CHOOSE a \in {TabStart(x) : x \in insT} : \A b \in {TabStart(x) : x \in insT} : a = b \/ VLess(a, b)
           hi   == CHOOSE a \in {TabEnd(x) : x \in insT} : \A b \in {TabEnd(x) : x \in insT} : a = b \/ VLess(b, a)
           dst  == IF l + 1 <= Len(levels) THEN levels[l + 1] ELSE <<>>
           ovl  == {i \in DOMAIN dst : Overlaps(dst[i], lo, hi)}
           all  == UNION ({x.vers : x \in insT} \cup {dst[i].vers : i \in ovl})
           outv == Discard(Merge(all))
           out  == [vers |-> outv, idx |-> NextIdx(l + 1), blocks |-> BlocksOf(outv, bs)]
           gone == [vers |-> {}, idx |-> -1, blocks |-> <<>>]
           keepS == SelectSeq([i \in DOMAIN src |-> IF i \in ins THEN gone ELSE src[i]], LAMBDA x : x.idx # -1)
           keepD == SelectSeq([i \in DOMAIN dst |-> IF i \in ovl THEN gone ELSE dst[i]], LAMBDA x : x.idx # -1)
           newD  == IF out.vers = {} THEN keepD ELSE Append(keepD, out)
       IN levels' = [i \in 1..(IF l + 1 > Len(levels) THEN l + 1 ELSE Len(levels)) |->
                        IF i = l THEN keepS ELSE IF i = l + 1 THEN newD ELSE levels[i]]
    /\ nsteps' = nsteps + 1
    /\ UNCHANGED <<wm, bs, fp, initial>>

Next == \E l \in 1..3 : CompactLevel(l)
Spec == Init /\ [][Next]_vars

\* ------------------------------------------------------------------ properties
Queries == Keys \X (0..(T + 1))
\* C10
LookupCorrect == \A q \in Queries : LevelSearch(q[1], q[2]) = AbsLookup(Stored, q[1], q[2])
\* C09
CompactionPreserves == \A q \in Queries : q[2] >= wm => LevelSearch(q[1], q[2]) = AbsLookup(initial, q[1], q[2])
OnlyShadowedDisappear == \A v \in initial : v \in Stored \/ \E u \in initial : u.k = v.k /\ u.ts > v.ts /\ u.ts <= wm

\* ------------------------------------------------------------------ export of the initial scenarios as replays
VersJson(S) == LET s == Sorted(S) IN [i \in 1..Len(s) |-> [k |-> s[i].k, ts |-> s[i].ts, tomb |-> s[i].tomb]]
Export == IF nsteps = 0
          THEN PrintT(<<"SCENARIO", ToJson([
                 tables |-> [i \in 1..Len(levels[1]) |-> VersJson(levels[1][i].vers)],
                 wm |-> wm, bs |-> bs,
                 expect |-> [q \in 1..(K * (T + 2)) |->
                     LET k == ((q - 1) \div (T + 2)) + 1  ts == (q - 1) % (T + 2) IN
                     LET r == AbsLookup(initial, k, ts) IN [k |-> k, ts |-> ts, rts |-> r.ts, rtomb |-> r.tomb]]])>>)
          ELSE TRUE
=============================================================================
