--------------------------------- MODULE Txn ---------------------------------
(***************************************************************************)
(* IMPLEMENTATION-SHAPED specification of originium's transaction layer    *)
(* (txn.go, oracle.go, the two watermarks) over an atomic multi-version    *)
(* store.  One action per critical section of the code:                    *)
(*                                                                         *)
(*   BeginTs      oracle.readTs under the oracle mutex: readTs = nextTs-1, *)
(*                readMark.Begin(readTs)                         (hook orc.readts)   *)
(*   BeginReady   commitMark.WaitForMark(readTs) returned                  *)
(*   Get / Put    txn.go Get / modify                                      *)
(*   Discard      oracle.doneRead                                          *)
(*   CommitLock   oracle.writeLock.Lock()                        (hook cm.lock.pre)  *)
(*   CommitDecide oracle.newCommitTs under the oracle mutex: hasConflict,  *)
(*                doneRead, cleanUpCommittedTxns, nextTs++,                *)
(*                commitMark.Begin, append to committedTxns      (hook cm.decided)   *)
(*   Apply        db.rawset of the whole batch                   (hook cm.applied)   *)
(*   CommitDone   oracle.doneCommit, unlock                      (hook cm.done)      *)
(*   AbortDiscard the deferred Discard of a refused Commit (after the unlock)        *)
(*   WmStep       one mark consumed by a watermark's process loop (hook wm.process)  *)
(*   WmPublish    the loop stores the new DoneUntil and wakes the waiters            *)
(*                                                                         *)
(* The watermarks follow the sequential mark rule of pkg/watermark.  With  *)
(* Lag = TRUE their consumer is asynchronous as in the code: a mark is     *)
(* appended to the watermark's channel when it is sent, WmStep consumes    *)
(* the head, WmPublish makes the new DoneUntil visible to DoneUntil() and  *)
(* WaitForMark.  With Lag = FALSE a mark is processed and published when   *)
(* it is sent (larger instances).  Watermark.tla models the consumer alone *)
(* (heap, waiters, cancellation).                                          *)
(*                                                                         *)
(* Ghost variable `hist` is the commit order of the CONTRACT (AbsTxn): the *)
(* invariants say that this layer refines it.                              *)
(*                                                                         *)
(* Deviation switches (all FALSE = the code as it is): each one is a       *)
(* realistic mistake; TLC must find a counterexample with it (self-test).  *)
(***************************************************************************)
EXTENDS Integers, Sequences, FiniteSets

CONSTANTS Clients, Keys, MaxTxn, MaxOps,
          Lag,                 \* TRUE: asynchronous watermark consumers (queues); FALSE: marks processed when sent
          BugConflictGeq,      \* hasConflict skips ct.ts < readTs only... compares with >= instead of >
          BugNoReadTracking,   \* Get does not record the read fingerprint
          BugNoCommitWait,     \* Begin does not wait for commitMark
          BugReadAtNext,       \* readTs = nextTs instead of nextTs-1
          BugCleanupEager,     \* cleanUp forgets every committed txn <= max finished readTs... uses nextTs
          BugApplyBeforeDecide,\* writes reach the store before validation
          BugTrackOwnReads,    \* reads served from the write buffer are tracked as store reads
          BugDoneCommitEarly   \* doneCommit before the writes are applied

VARIABLES nextTs, committed, lastClean,
          wm,                        \* the two watermarks "r" (readMark) and "c" (commitMark): channel q, pending
                                     \* counts pend, the loop's doneUntil done, the published DoneUntil vis
          wLock,                     \* holder of oracle.writeLock or 0
          store,                     \* set of versions [k, ts, v]
          tx,                        \* per client
          hist,                      \* ghost: contract commit order, Seq([Keys -> val])
          bad                        \* ghost: a decision disagreed with the contract ("" = none)

vars == <<nextTs, committed, lastClean, wm, wLock, store, tx, hist, bad>>

Unw  == -1
Gone == 0
NoW  == [k \in Keys |-> Unw]
Fresh(n) == [st |-> "idle", n |-> n, upd |-> FALSE, rts |-> 0, snap |-> 0, reads |-> {}, sreads |-> {}, w |-> NoW, cts |-> 0,
             ops |-> 0, doneRead |-> FALSE]       \* snap is a ghost: Len(hist) when readTs was taken

Init == /\ nextTs = 1 /\ committed = {} /\ lastClean = 0
        /\ wm = [w \in {"r", "c"} |-> [q |-> <<>>, pend |-> <<>>, done |-> 0, vis |-> 0]]
        /\ wLock = 0
        /\ store = {}
        /\ tx = [c \in Clients |-> Fresh(0)]
        /\ hist = <<>>
        /\ bad = ""

WKeys(m) == {k \in Keys : m[k] # Unw}
Val(c)   == c * 10 + tx[c].n           \* identity of the writing transaction

\* ------------------------------------------------------------------ the store (C05 read rule)
Cands(k, ts) == {v \in store : v.k = k /\ v.ts <= ts}
StoreRead(k, ts) == IF Cands(k, ts) = {} THEN Gone
                    ELSE (CHOOSE v \in Cands(k, ts) : \A u \in Cands(k, ts) : u.ts <= v.ts).v

RECURSIVE ValAt(_, _)
ValAt(k, n) == IF n = 0 THEN Gone ELSE IF hist[n][k] # Unw THEN hist[n][k] ELSE ValAt(k, n - 1)

\* ------------------------------------------------------------------ watermark (pkg/watermark, abstract)
\* pend is a function from a finite set of indices to counts (the heap is its domain)
RECURSIVE Drain(_, _)
Drain(p, d) == IF DOMAIN p = {} THEN <<p, d>>
               ELSE LET m == CHOOSE i \in DOMAIN p : \A j \in DOMAIN p : i <= j IN
                    IF p[m] > 0 THEN <<p, d>>
                    ELSE Drain([j \in (DOMAIN p) \ {m} |-> p[j]], IF m > d THEN m ELSE d)

\* one mark consumed by the process loop: returns <<pending', doneUntil'>>
Process(m, p, d) ==
    LET prev == IF m.ts \in DOMAIN p THEN p[m.ts] ELSE 0
        p1   == [j \in (DOMAIN p) \cup {m.ts} |-> IF j = m.ts THEN prev + (IF m.done THEN -1 ELSE 1) ELSE p[j]]
    IN Drain(p1, d)

Mark(ts, done) == [ts |-> ts, done |-> done]

\* the watermark function f after mark m was sent to watermark w
Sent(f, w, m) == IF Lag THEN [f EXCEPT ![w].q = Append(@, m)]
                 ELSE LET r == Process(m, f[w].pend, f[w].done) IN
                      [f EXCEPT ![w].pend = r[1], ![w].done = r[2], ![w].vis = r[2]]

\* the process loop takes the next mark only after it published the result of the previous one
WmStep(w) ==
    /\ Lag /\ wm[w].q # <<>> /\ wm[w].vis = wm[w].done
    /\ LET r == Process(Head(wm[w].q), wm[w].pend, wm[w].done) IN
       wm' = [wm EXCEPT ![w].q = Tail(@), ![w].pend = r[1], ![w].done = r[2]]
    /\ UNCHANGED <<nextTs, committed, lastClean, wLock, store, tx, hist, bad>>

WmPublish(w) ==
    /\ Lag /\ wm[w].vis < wm[w].done
    /\ wm' = [wm EXCEPT ![w].vis = wm[w].done]
    /\ UNCHANGED <<nextTs, committed, lastClean, wLock, store, tx, hist, bad>>

\* ------------------------------------------------------------------ client actions
BeginTs(c, upd) ==
    /\ tx[c].st \in {"idle", "done"} /\ tx[c].n < MaxTxn
    /\ LET rts == IF BugReadAtNext THEN nextTs ELSE nextTs - 1 IN
       /\ tx' = [tx EXCEPT ![c] = [Fresh(tx[c].n + 1) EXCEPT !.st = "waitmark", !.upd = upd, !.rts = rts,
                                                          !.snap = Len(hist)]]
       /\ wm' = Sent(wm, "r", Mark(rts, FALSE))
    /\ UNCHANGED <<nextTs, committed, lastClean, wLock, store, hist, bad>>

BeginReady(c) ==
    /\ tx[c].st = "waitmark"
    /\ BugNoCommitWait \/ wm["c"].vis >= tx[c].rts
    /\ tx' = [tx EXCEPT ![c].st = "active"]
    /\ UNCHANGED <<nextTs, committed, lastClean, wm, wLock, store, hist, bad>>

\* the value a Get returns now
GetNow(c, k) == IF tx[c].upd /\ tx[c].w[k] # Unw THEN tx[c].w[k] ELSE StoreRead(k, tx[c].rts)
\* the value the contract prescribes: the snapshot is the commit order as it was when the
\* read timestamp was taken (in the code as it is: the first rts commits, commit i has ts i)
GetSpec(c, k) == IF tx[c].upd /\ tx[c].w[k] # Unw THEN tx[c].w[k] ELSE ValAt(k, tx[c].snap)

Get(c, k) ==
    /\ tx[c].st = "active" /\ tx[c].ops < MaxOps
    /\ LET own == tx[c].upd /\ tx[c].w[k] # Unw IN
       tx' = [tx EXCEPT ![c].ops = @ + 1,
                        ![c].reads = IF tx[c].upd /\ ~BugNoReadTracking /\ (~own \/ BugTrackOwnReads)
                                     THEN @ \cup {k} ELSE @,
                        ![c].sreads = IF tx[c].upd /\ ~own THEN @ \cup {k} ELSE @]   \* ghost: the contract's store reads
    /\ bad' = IF bad = "" /\ GetNow(c, k) # GetSpec(c, k) THEN "read" ELSE bad
    /\ UNCHANGED <<nextTs, committed, lastClean, wm, wLock, store, hist>>

\* v = Gone: Delete; any other value: Set
Put(c, k, v) ==
    /\ tx[c].st = "active" /\ tx[c].upd /\ tx[c].ops < MaxOps
    /\ tx' = [tx EXCEPT ![c].ops = @ + 1, ![c].w[k] = v]
    /\ UNCHANGED <<nextTs, committed, lastClean, wm, wLock, store, hist, bad>>

\* oracle.doneRead: readMark.Done(readTs) unless already sent; the watermarks afterwards
DoneRead(c) == IF tx[c].doneRead THEN wm ELSE Sent(wm, "r", Mark(tx[c].rts, TRUE))

\* Discard, and Commit without writes (which is a Discard returning nil)
Discard(c) ==
    /\ tx[c].st = "active"
    /\ wm' = DoneRead(c)
    /\ tx' = [tx EXCEPT ![c].st = "done", ![c].doneRead = TRUE]
    /\ UNCHANGED <<nextTs, committed, lastClean, wLock, store, hist, bad>>

CommitEmpty(c) == WKeys(tx[c].w) = {} /\ Discard(c)

CommitLock(c) ==
    /\ tx[c].st = "active" /\ WKeys(tx[c].w) # {}
    /\ wLock = 0
    /\ wLock' = c
    /\ tx' = [tx EXCEPT ![c].st = "locked"]
    /\ store' = IF BugApplyBeforeDecide
                THEN store \cup {[k |-> k, ts |-> nextTs, v |-> tx[c].w[k]] : k \in WKeys(tx[c].w)} ELSE store
    /\ UNCHANGED <<nextTs, committed, lastClean, wm, hist, bad>>

ImplConflict(c) == \E ct \in committed :
                      /\ IF BugConflictGeq THEN ct.ts > tx[c].rts + 1 ELSE ct.ts > tx[c].rts
                      /\ ct.wkeys \cap tx[c].reads # {}
\* the contract's rule on the ghost history; store-read keys = reads tracked without the switches
SpecConflict(c) == \E i \in (tx[c].snap + 1)..Len(hist) : \E k \in tx[c].sreads : hist[i][k] # Unw

\* newCommitTs under the oracle mutex.  Refused: the write lock is released on return and the
\* deferred Discard follows as a step of its own (AbortDiscard).
CommitDecide(c) ==
    /\ tx[c].st = "locked"
    /\ IF ImplConflict(c)
       THEN /\ tx' = [tx EXCEPT ![c].st = "aborted"]
            /\ wLock' = 0
            /\ bad' = IF bad = "" /\ ~SpecConflict(c) THEN "overabort" ELSE bad
            /\ UNCHANGED <<nextTs, committed, lastClean, wm, hist>>
       ELSE LET dr   == DoneRead(c)
                low  == IF BugCleanupEager THEN nextTs - 1 ELSE dr["r"].vis     \* readMark.DoneUntil()
                keep == IF low = lastClean THEN committed ELSE {ct \in committed : ct.ts > low}
                b    == Sent(dr, "c", Mark(nextTs, FALSE))
            IN /\ committed' = keep \cup {[ts |-> nextTs, wkeys |-> WKeys(tx[c].w)]}
               /\ lastClean' = low
               /\ nextTs' = nextTs + 1
               /\ wm' = IF BugDoneCommitEarly THEN Sent(b, "c", Mark(nextTs, TRUE)) ELSE b
               /\ tx' = [tx EXCEPT ![c].st = "applying", ![c].cts = nextTs, ![c].doneRead = TRUE]
               /\ hist' = Append(hist, tx[c].w)
               /\ bad' = IF bad = "" /\ SpecConflict(c) THEN "underabort" ELSE bad
               /\ UNCHANGED wLock
    /\ UNCHANGED store

AbortDiscard(c) ==
    /\ tx[c].st = "aborted"
    /\ wm' = DoneRead(c)
    /\ tx' = [tx EXCEPT ![c].st = "done", ![c].doneRead = TRUE]
    /\ UNCHANGED <<nextTs, committed, lastClean, wLock, store, hist, bad>>

Apply(c) ==
    /\ tx[c].st = "applying"
    /\ store' = store \cup {[k |-> k, ts |-> tx[c].cts, v |-> tx[c].w[k]] : k \in WKeys(tx[c].w)}
    /\ tx' = [tx EXCEPT ![c].st = "applied"]
    /\ UNCHANGED <<nextTs, committed, lastClean, wm, wLock, hist, bad>>

CommitDone(c) ==
    /\ tx[c].st = "applied"
    /\ wm' = IF BugDoneCommitEarly THEN wm ELSE Sent(wm, "c", Mark(tx[c].cts, TRUE))
    /\ wLock' = 0
    /\ tx' = [tx EXCEPT ![c].st = "done"]
    /\ UNCHANGED <<nextTs, committed, lastClean, store, hist, bad>>

Next == \/ \E c \in Clients :
             \/ \E u \in BOOLEAN : BeginTs(c, u)
             \/ BeginReady(c) \/ Discard(c) \/ CommitLock(c) \/ CommitDecide(c) \/ AbortDiscard(c)
             \/ Apply(c) \/ CommitDone(c)
             \/ \E k \in Keys : Get(c, k) \/ \E v \in {Gone, Val(c)} : Put(c, k, v)
        \/ \E w \in {"r", "c"} : WmStep(w) \/ WmPublish(w)

Spec == Init /\ [][Next]_vars
FairSpec == /\ Spec
            /\ \A c \in Clients : WF_vars(BeginReady(c) \/ CommitDecide(c) \/ AbortDiscard(c) \/ Apply(c) \/ CommitDone(c))
            /\ \A w \in {"r", "c"} : WF_vars(WmStep(w) \/ WmPublish(w))

\* ------------------------------------------------------------------ properties
\* C05: every read an active transaction could issue now returns what the contract prescribes
SnapshotReads == \A c \in Clients : tx[c].st = "active" => \A k \in Keys : GetNow(c, k) = GetSpec(c, k)
\* C05/C06/C07: no Get and no Commit decision disagreed with the contract
Agrees == bad = ""
\* C08: every stored version was written by a transaction that committed
NoTrace == \A v \in store : \E i \in 1..Len(hist) : hist[i][v.k] = v.v /\ i = v.ts
\* the version-discard watermark never passes an open reader (GC safety, C05/C09)
GcSafe == \A c \in Clients : tx[c].st \in {"waitmark", "active", "locked", "aborted"} /\ ~tx[c].doneRead =>
              wm["r"].done <= tx[c].rts /\ wm["r"].vis <= tx[c].rts
\* the commit watermark never claims an unapplied commit
CommitMarkSound == \A c \in Clients : tx[c].st \in {"applying"} => wm["c"].done < tx[c].cts
\* cleanup never forgets a committed transaction an open update transaction could conflict with
CleanupSafe == \A c \in Clients : tx[c].st \in {"waitmark", "active", "locked"} /\ tx[c].upd =>
                  \A i \in (tx[c].snap + 1)..Len(hist) : \E ct \in committed : ct.ts = i
\* liveness (C15 for the oracle): a transaction waiting for the commit mark gets it
BeginReturns == \A c \in Clients : (tx[c].st = "waitmark") ~> (tx[c].st # "waitmark")
=============================================================================
