------------------------------ MODULE TraceTxn ------------------------------
(***************************************************************************)
(* IMPLEMENTATION-LEVEL trace validation of the transaction layer: the      *)
(* stream recorded from the real engine under concurrent clients - every    *)
(* API call (invocation and response) merged with the hooks that fire       *)
(* inside the oracle mutex / the commit write lock on the calling goroutine *)
(* (orc.readts, orc.committs, cm.decided, cm.applied, cm.done) - must be a  *)
(* behaviour of Txn.tla with Lag = TRUE.  Every hook is the action of the   *)
(* same critical section and the scalars it reports are bound to the        *)
(* specification's variables:                                              *)
(*   readts    BeginTs        readTs = nextTs - 1                           *)
(*   committs  CommitDecide   commitTs = nextTs, the transaction's readTs,  *)
(*                            len(committedTxns) and lastCleanUpTs after    *)
(*                            cleanUpCommittedTxns                          *)
(*   decided   CommitDecide   (refused) the conflict decision itself        *)
(*   applied   Apply          done  CommitDone                              *)
(*   Get       the value returned = the store read at readTs / the buffer   *)
(* Steps the hooks cannot see are silent steps of the trace specification,  *)
(* taken only where they can matter (they commute with everything else):    *)
(*   CommitLock (between CommitInv and the decision), the Done mark of a    *)
(*   Discard (sent outside every lock: its place in the readMark channel    *)
(*   relative to the marks sent under the oracle mutex is searched), and    *)
(*   the asynchronous watermark consumers WmStep / WmPublish (before a      *)
(*   committs for readMark, before a BeginResp for commitMark), and         *)
(*   CommitDone ahead of its hook (cm.done is recorded after the Done mark  *)
(*   was sent, so a waiting Begin can be released before the event).        *)
(* A rejection here with the contract (AbsTxn) satisfied means the code no  *)
(* longer has the shape of Txn.tla (DRIFT), not that a property is broken.  *)
(***************************************************************************)
EXTENDS Txn, TLC, Json, IOUtils

Trace == ndJsonDeserialize(IOEnv.TRACE)
VARIABLES l,
          phase   \* per client: "" | "commit" (CommitInv seen, lock not taken) | "discard" (Done mark not sent)
                  \*           | "refused" | "committed" (how the Commit in flight ended)
tvars == <<vars, l, phase>>
E == Trace[l]
IsEv(name) == l <= Len(Trace) /\ E.ev = name /\ l' = l + 1
NextIs(names) == l <= Len(Trace) /\ E.ev \in names

TInit == Init /\ l = 1 /\ phase = [c \in Clients |-> ""]

TReset == /\ IsEv("Reset")
          /\ nextTs' = 1 /\ committed' = {} /\ lastClean' = 0
          /\ wm' = [w \in {"r", "c"} |-> [q |-> <<>>, pend |-> <<>>, done |-> 0, vis |-> 0]]
          /\ wLock' = 0 /\ store' = {} /\ tx' = [c \in Clients |-> Fresh(0)] /\ hist' = <<>> /\ bad' = ""
          /\ phase' = [c \in Clients |-> ""]

\* events that change nothing in the specification
TNote == /\ l <= Len(Trace) /\ E.ev \in {"BeginInv", "Close"} /\ l' = l + 1
         /\ UNCHANGED <<vars, phase>>

TReadTs == /\ IsEv("readts") /\ BeginTs(E.w, E.upd) /\ tx'[E.w].rts = E.rts /\ UNCHANGED phase
TBeginResp == IsEv("BeginResp") /\ BeginReady(E.w) /\ UNCHANGED phase
TGet == IsEv("Get") /\ Get(E.w, E.k) /\ GetNow(E.w, E.k) = E.v /\ UNCHANGED phase
TPut == /\ IsEv("Put")
        /\ IF E.res = "ok" THEN Put(E.w, E.k, E.v) ELSE UNCHANGED vars
        /\ UNCHANGED phase

TCommitInv == /\ IsEv("CommitInv")
              /\ phase' = [phase EXCEPT ![E.w] = IF tx[E.w].st # "active" THEN ""
                                                 ELSE IF WKeys(tx[E.w].w) = {} THEN "discard" ELSE "commit"]
              /\ UNCHANGED vars
TDiscardInv == /\ IsEv("DiscardInv")
               /\ phase' = [phase EXCEPT ![E.w] = IF tx[E.w].st = "active" THEN "discard" ELSE ""]
               /\ UNCHANGED vars

TCommitTs == /\ IsEv("committs")
             /\ tx[E.w].rts = E.rts /\ nextTs = E.cts
             /\ CommitDecide(E.w)
             /\ tx'[E.w].st = "applying"
             /\ lastClean' = E.lc
             /\ Cardinality(committed') = E.nc + 1
             /\ UNCHANGED phase
TDecided == /\ IsEv("decided")
            /\ tx[E.w].rts = E.rts
            /\ IF E.conf
               THEN CommitDecide(E.w) /\ tx'[E.w].st = "aborted" /\ phase' = [phase EXCEPT ![E.w] = "refused"]
               ELSE tx[E.w].st = "applying" /\ tx[E.w].cts = E.cts /\ UNCHANGED <<vars, phase>>
TApplied == IsEv("applied") /\ Apply(E.w) /\ UNCHANGED phase
\* cm.done is recorded after commitMark.Done was sent: a Begin of another client may already have
\* been released by it (SDone below); the event then only confirms the step
TDone == /\ IsEv("done") /\ tx[E.w].cts = E.cts
         /\ IF tx[E.w].st = "applied"
            THEN CommitDone(E.w) /\ phase' = [phase EXCEPT ![E.w] = "committed"]
            ELSE tx[E.w].st = "done" /\ phase[E.w] = "committed" /\ UNCHANGED <<vars, phase>>

TCommitResp == /\ IsEv("CommitResp")
               /\ CASE E.res = "ok" -> tx[E.w].st = "done" /\ phase[E.w] \in {"committed", ""}
                    [] E.res = "conflict" -> tx[E.w].st = "done" /\ phase[E.w] = "refused"
                    [] OTHER -> phase[E.w] = ""
               /\ phase' = [phase EXCEPT ![E.w] = ""]
               /\ UNCHANGED vars
TDiscardResp == /\ IsEv("Discard")
                /\ tx[E.w].st \in {"done", "idle"} /\ phase[E.w] = ""
                /\ UNCHANGED <<vars, phase>>

\* ------------------------------------------------------------------ silent steps
SLock(c) == /\ phase[c] = "commit" /\ NextIs({"committs", "decided"}) /\ E.w = c
            /\ CommitLock(c) /\ phase' = [phase EXCEPT ![c] = ""] /\ l' = l
\* the Done mark of Discard / of a Commit without writes / of the deferred Discard of a refused Commit
SendsNext(c) == \/ NextIs({"readts", "committs"})
                \/ NextIs({"Discard", "CommitResp"}) /\ E.w = c
SDiscard(c) == /\ phase[c] = "discard" /\ SendsNext(c)
               /\ Discard(c) /\ phase' = [phase EXCEPT ![c] = ""] /\ l' = l
SAbort(c) == SendsNext(c) /\ AbortDiscard(c) /\ UNCHANGED phase /\ l' = l
SDone(c) == /\ NextIs({"BeginResp"}) /\ CommitDone(c) /\ phase' = [phase EXCEPT ![c] = "committed"] /\ l' = l
SWm(w) == /\ NextIs(IF w = "r" THEN {"committs"} ELSE {"BeginResp"})
          /\ (WmStep(w) \/ WmPublish(w)) /\ UNCHANGED phase /\ l' = l

TNext == \/ TReset \/ TNote \/ TReadTs \/ TBeginResp \/ TGet \/ TPut \/ TCommitInv \/ TDiscardInv
         \/ TCommitTs \/ TDecided \/ TApplied \/ TDone \/ TCommitResp \/ TDiscardResp
         \/ \E c \in Clients : SLock(c) \/ SDiscard(c) \/ SAbort(c) \/ SDone(c)
         \/ \E w \in {"r", "c"} : SWm(w)
TSpec == TInit /\ [][TNext]_tvars

ASSUME TLCSet(1, 0)
HighWater == /\ TLCSet(1, IF TLCGet(1) < l THEN l ELSE TLCGet(1))
             /\ (l > Len(Trace)) => /\ PrintT(<<"HIGHWATER", l, Len(Trace)>>)
                                    /\ TLCSet("exit", TRUE)
Accepted  == /\ PrintT(<<"HIGHWATER", TLCGet(1), Len(Trace)>>)
             /\ TLCGet(1) = Len(Trace) + 1
=============================================================================
