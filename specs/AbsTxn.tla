------------------------------- MODULE AbsTxn -------------------------------
(***************************************************************************)
(* CONTRACT specification of originium's transactional API.                *)
(*                                                                         *)
(* The state is the committed key-value map plus, per client ("worker"),   *)
(* the transaction it currently runs: its snapshot (a copy of the map as   *)
(* it was at the linearization point of Begin), the keys committed by      *)
(* others since then, its store-read set and its write buffer.  Every API  *)
(* call is an invocation/response pair; Begin and Commit take effect at    *)
(* one instant between the two.  Nothing of the engine (memtables, wal,    *)
(* tables, timestamps, watermarks) appears here: this module is what       *)
(* properties C01, C02-C08 and the "result allowed" part of C12 *say*;     *)
(* verdicts are computed against it.                                       *)
(*                                                                         *)
(*   C05  Get = own write, else the value in the snapshot fixed at Begin   *)
(*   C06  acceptance of a history by this module = strict serializability  *)
(*        with the commit order as the serial order                        *)
(*   C07  LPCommit refuses exactly when a store-read key was overwritten   *)
(*   C08  refused / discarded / failed transactions never reach `cur`;     *)
(*        misuse has a fixed answer and no effect                          *)
(*   C02/C03/C04/C14  Close, Crash, Open: the committed map survives; a    *)
(*        commit in flight at a crash is applied whole or not at all       *)
(*                                                                         *)
(* The state deliberately keeps no history: two linearizations that cannot *)
(* be told apart by any later call lead to the same state, which keeps the *)
(* search over unobservable linearization points small (trace validation). *)
(***************************************************************************)
EXTENDS Integers, Sequences, FiniteSets

CONSTANTS Workers,          \* client identities
          Keys,             \* key identities
          AtomicInflight,   \* TRUE: C04 reading (whole or nothing); FALSE: C03 reading (per key)
          ExactConflict     \* TRUE: C07 reading (iff); FALSE: a refusal is always allowed (C06 only)

VARIABLES cur,              \* [Keys -> Val]: the committed state (Gone = deleted / never written)
          ws,               \* per worker: the transaction it runs
          up                \* TRUE while a DB handle is open

avars == <<cur, ws, up>>

Unw  == -1                  \* "key not written by this transaction"
Gone == 0                   \* deleted or never written

NoW  == [k \in Keys |-> Unw]
Idle == [st |-> "idle", upd |-> FALSE, frozen |-> FALSE, view |-> [k \in Keys |-> Gone], dirty |-> {},
         reads |-> {}, w |-> NoW, res |-> "none"]
\* a finished transaction remembers only that it is finished and whether it was read-only
Done(x) == [Idle EXCEPT !.st = "done", !.upd = ws[x].upd]

AInit == /\ cur = [k \in Keys |-> Gone]
         /\ ws = [x \in Workers |-> Idle]
         /\ up = TRUE

WKeys(m)  == {k \in Keys : m[k] # Unw}
HasW(x)   == WKeys(ws[x].w) # {}
Overlay(m, base) == [k \in Keys |-> IF m[k] # Unw THEN m[k] ELSE base[k]]

\* what a Get must return (C05)
GetVal(x, k) == IF ws[x].st # "active" THEN Gone                       \* finished txn: logged error, not found
                ELSE IF ws[x].upd /\ ws[x].w[k] # Unw THEN ws[x].w[k]   \* own write (Gone for own delete)
                ELSE ws[x].view[k]

\* the exact conflict rule (C07): a store-read key was committed by someone after the snapshot
Conflict(x) == ws[x].reads \cap ws[x].dirty # {}

\* a commit with write map m is linearized now.  Every transaction whose snapshot is already
\* fixed notes the keys as dirty.  A Begin that is in progress either has its linearization
\* point before this commit (it is in F: its snapshot freezes as it is) or after it (its
\* snapshot follows the committed state).
Linearize(m, F) ==
    [x \in Workers |->
        IF ws[x].st = "beginning" /\ ~ws[x].frozen
        THEN IF x \in F THEN [ws[x] EXCEPT !.frozen = TRUE, !.dirty = WKeys(m)]
             ELSE [ws[x] EXCEPT !.view = Overlay(m, cur)]
        ELSE IF ws[x].st \in {"beginning", "active", "committing"}
             THEN [ws[x] EXCEPT !.dirty = @ \cup WKeys(m)]
             ELSE ws[x]]
Beginning == {x \in Workers : ws[x].st = "beginning" /\ ~ws[x].frozen}

----------------------------------------------------------------------------
BeginInv(x, upd) ==
    /\ up
    /\ ws[x].st \in {"idle", "done"}
    /\ ws' = [ws EXCEPT ![x] = [Idle EXCEPT !.st = "beginning", !.upd = upd, !.view = cur]]
    /\ UNCHANGED <<cur, up>>

\* if the snapshot has not been frozen by a later commit it is the state as of now
BeginResp(x) ==
    /\ ws[x].st = "beginning"
    /\ ws' = [ws EXCEPT ![x].st = "active", ![x].frozen = TRUE]
    /\ UNCHANGED <<cur, up>>

\* v is the value the implementation returned (Gone = not found)
Get(x, k, v) ==
    /\ ws[x].st \in {"active", "done"}
    /\ v = GetVal(x, k)
    /\ ws' = [ws EXCEPT ![x].reads =
                 IF ws[x].st = "active" /\ ws[x].upd /\ ws[x].w[k] = Unw
                 THEN @ \cup {k} ELSE @]
    /\ UNCHANGED <<cur, up>>

\* Set (v > 0) or Delete (v = Gone); res is the error the call returned
PutRes(x) == IF ~ws[x].upd THEN "readonly"                  \* read-only is tested first
             ELSE IF ws[x].st = "done" THEN "discarded"
             ELSE "ok"

Put(x, k, v, res) ==
    /\ ws[x].st \in {"active", "done"}
    /\ res = PutRes(x)
    /\ ws' = IF res = "ok" THEN [ws EXCEPT ![x].w[k] = v] ELSE ws
    /\ UNCHANGED <<cur, up>>

\* a call with the empty key: documented error, no effect (the empty key is not in Keys)
PutEmptyKey(x, res) ==
    /\ ws[x].st \in {"active", "done"}
    /\ res = (IF PutRes(x) = "ok" THEN "emptykey" ELSE PutRes(x))
    /\ UNCHANGED avars

Discard(x) ==
    /\ ws[x].st \in {"active", "done"}
    /\ ws' = [ws EXCEPT ![x] = Done(x)]
    /\ UNCHANGED <<cur, up>>

\* Commit of a finished transaction: documented error.  Commit without writes (read-only
\* transactions included): always succeeds, no effect, nothing to linearize.
CommitInv(x) ==
    /\ ws[x].st \in {"active", "done"}
    /\ ws' = [ws EXCEPT ![x].st = IF ws[x].st = "done" \/ ~HasW(x) THEN "decided" ELSE "committing",
                        ![x].res = IF ws[x].st = "done" THEN "discarded"
                                   ELSE IF ~HasW(x) THEN "ok" ELSE "none"]
    /\ UNCHANGED <<cur, up>>

\* internal: validate and apply atomically (the linearization point of Commit)
LPCommit(x) ==
    /\ ws[x].st = "committing"
    /\ \/ /\ Conflict(x) \/ ~ExactConflict
          /\ ws' = [ws EXCEPT ![x].st = "decided", ![x].res = "conflict"]
          /\ UNCHANGED cur
       \/ /\ ~Conflict(x)
          /\ \E F \in SUBSET Beginning :
                ws' = [Linearize(ws[x].w, F) EXCEPT ![x].st = "decided", ![x].res = "ok"]
          /\ cur' = Overlay(ws[x].w, cur)
    /\ UNCHANGED up

CommitResp(x, res) ==
    /\ ws[x].st = "decided"
    /\ ws[x].res = res
    /\ ws' = [ws EXCEPT ![x] = Done(x)]
    /\ UNCHANGED <<cur, up>>

\* View/Update after Close: ErrDBClosed, the closure is not run
ClosedCall(x, res) ==
    /\ ~up
    /\ res = "closed"
    /\ UNCHANGED avars

Close ==
    /\ up
    /\ \A x \in Workers : ws[x].st \in {"idle", "done"}      \* C15: no call in flight
    /\ up' = FALSE
    /\ UNCHANGED <<cur, ws>>

\* process crash.  A commit whose LPCommit has been taken is in `cur` (it may or may not
\* have been acknowledged); one whose LPCommit has not been taken is not.  With AtomicInflight
\* = FALSE (the per-key reading of C03) the commit that was being applied may additionally
\* survive for a strict non-empty subset of its keys.
Partial(x) == IF AtomicInflight \/ ws[x].st # "committing" \/ ~HasW(x) \/ Conflict(x)
              THEN {}
              ELSE {[k \in Keys |-> IF k \in S THEN ws[x].w[k] ELSE Unw] :
                      S \in (SUBSET WKeys(ws[x].w)) \ {{}, WKeys(ws[x].w)}}

Crash ==
    /\ up' = FALSE
    /\ ws' = [x \in Workers |-> Idle]
    /\ \/ UNCHANGED cur
       \/ \E x \in Workers : \E m \in Partial(x) : cur' = Overlay(m, cur)

Open ==
    /\ ~up
    /\ up' = TRUE
    /\ ws' = [x \in Workers |-> Idle]
    /\ UNCHANGED cur

=============================================================================
