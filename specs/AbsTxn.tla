------------------------------- MODULE AbsTxn -------------------------------
(***************************************************************************)
(* CONTRACT specification of originium's transactional API.                *)
(*                                                                         *)
(* The only state is the commit order (a sequence of write maps) plus, per *)
(* client ("worker"), the transaction it currently runs.  Every API call   *)
(* is an invocation/response pair; Begin and Commit take effect at one     *)
(* instant between the two (BeginResp chooses it, LPCommit is it).         *)
(* Nothing of the engine (memtables, wal, tables, timestamps, watermarks)  *)
(* appears here: this module is what properties C01, C02-C08 and the       *)
(* "result allowed" part of C12 *say*; verdicts are computed against it.   *)
(*                                                                         *)
(*   C05  Get = own write, else value as of the snapshot fixed at LPBegin  *)
(*   C06  acceptance of a history by this module = strict serializability  *)
(*        with the commit order as the serial order                        *)
(*   C07  LPCommit refuses exactly when a store-read key was overwritten   *)
(*   C08  refused / discarded / failed transactions never reach `commits`; *)
(*        misuse has a fixed answer and no effect                          *)
(*   C02/C03/C04/C14  Close, Crash, Open: the commit order survives; a     *)
(*        commit in flight at a crash is applied whole or not at all       *)
(***************************************************************************)
EXTENDS Integers, Sequences, FiniteSets

CONSTANTS Workers,          \* client identities
          Keys,             \* key identities (ordered integers)
          AtomicInflight,   \* TRUE: C04 reading (whole or nothing); FALSE: C03 reading (per key)
          ExactConflict     \* TRUE: C07 reading (iff); FALSE: a refusal is always allowed (C06 only)

VARIABLES commits,          \* Seq([Keys -> Val \cup {Unw}])   the commit order
          ws,               \* per worker: the transaction it runs
          up                \* TRUE while a DB handle is open

avars == <<commits, ws, up>>

Unw  == -1                  \* "key not written by this transaction / commit"
Gone == 0                   \* deleted or never written

Idle == [st |-> "idle", upd |-> FALSE, snap |-> 0, reads |-> {},
         w |-> [k \in Keys |-> Unw], res |-> "none"]
\* a finished transaction remembers only that it is finished and whether it was read-only
Done(x) == [Idle EXCEPT !.st = "done", !.upd = ws[x].upd]

AInit == /\ commits = <<>>
         /\ ws = [x \in Workers |-> Idle]
         /\ up = TRUE

RECURSIVE ValAt(_, _)
\* value of key k after the first n commits
ValAt(k, n) == IF n = 0 THEN Gone
               ELSE IF commits[n][k] # Unw THEN commits[n][k] ELSE ValAt(k, n - 1)

WKeys(m)  == {k \in Keys : m[k] # Unw}
HasW(x)   == WKeys(ws[x].w) # {}

\* what a Get must return (C05)
GetVal(x, k) == IF ws[x].st # "active" THEN Gone                       \* finished txn: logged error, not found
                ELSE IF ws[x].upd /\ ws[x].w[k] # Unw THEN ws[x].w[k]   \* own write (Gone for own delete)
                ELSE ValAt(k, ws[x].snap)

\* the exact conflict rule (C07)
Conflict(x) == \E i \in (ws[x].snap + 1)..Len(commits) :
                  \E k \in ws[x].reads : commits[i][k] # Unw

----------------------------------------------------------------------------
BeginInv(x, upd) ==
    /\ up
    /\ ws[x].st \in {"idle", "done"}
    /\ ws' = [ws EXCEPT ![x] = [Idle EXCEPT !.st = "beginning", !.upd = upd, !.snap = Len(commits)]]
    /\ UNCHANGED <<commits, up>>

\* The snapshot is fixed at some instant between the invocation and the response of Begin
\* (the linearization point of Begin): it is the length the commit order had at that instant,
\* i.e. any value between its length at the invocation (kept in snap meanwhile) and now.
BeginResp(x) ==
    /\ ws[x].st = "beginning"
    /\ \E s \in ws[x].snap..Len(commits) :
          ws' = [ws EXCEPT ![x].st = "active", ![x].snap = s]
    /\ UNCHANGED <<commits, up>>

\* v is the value the implementation returned (Gone = not found)
Get(x, k, v) ==
    /\ ws[x].st \in {"active", "done"}
    /\ v = GetVal(x, k)
    /\ ws' = [ws EXCEPT ![x].reads =
                 IF ws[x].st = "active" /\ ws[x].upd /\ ws[x].w[k] = Unw
                 THEN @ \cup {k} ELSE @]
    /\ UNCHANGED <<commits, up>>

\* Set (v > 0) or Delete (v = Gone); res is the error the call returned
PutRes(x) == IF ~ws[x].upd THEN "readonly"                  \* read-only is tested first
             ELSE IF ws[x].st = "done" THEN "discarded"
             ELSE "ok"

Put(x, k, v, res) ==
    /\ ws[x].st \in {"active", "done"}
    /\ res = PutRes(x)
    /\ ws' = IF res = "ok" THEN [ws EXCEPT ![x].w[k] = v] ELSE ws
    /\ UNCHANGED <<commits, up>>

\* a call with the empty key: documented error, no effect (key is not in Keys)
PutEmptyKey(x, res) ==
    /\ ws[x].st \in {"active", "done"}
    /\ res = (IF PutRes(x) = "ok" THEN "emptykey" ELSE PutRes(x))
    /\ UNCHANGED avars

Discard(x) ==
    /\ ws[x].st \in {"active", "done"}
    /\ ws' = [ws EXCEPT ![x] = Done(x)]
    /\ UNCHANGED <<commits, up>>

\* Commit of a finished transaction: documented error.  Commit without writes (read-only
\* transactions included): always succeeds, no effect, nothing to linearize.
CommitInv(x) ==
    /\ ws[x].st \in {"active", "done"}
    /\ ws' = [ws EXCEPT ![x].st = IF ws[x].st = "done" \/ ~HasW(x) THEN "decided" ELSE "committing",
                        ![x].res = IF ws[x].st = "done" THEN "discarded"
                                   ELSE IF ~HasW(x) THEN "ok" ELSE "none"]
    /\ UNCHANGED <<commits, up>>

LPCommit(x) ==                                    \* internal: validate and apply atomically
    /\ ws[x].st = "committing"
    /\ \/ /\ Conflict(x) \/ ~ExactConflict
          /\ ws' = [ws EXCEPT ![x].st = "decided", ![x].res = "conflict"]
          /\ UNCHANGED commits
       \/ /\ ~Conflict(x)
          /\ ws' = [ws EXCEPT ![x].st = "decided", ![x].res = "ok"]
          /\ commits' = Append(commits, ws[x].w)
    /\ UNCHANGED up

CommitResp(x, res) ==
    /\ ws[x].st = "decided"
    /\ ws[x].res = res
    /\ ws' = [ws EXCEPT ![x] = Done(x)]
    /\ UNCHANGED <<commits, up>>

\* View/Update after Close: ErrDBClosed, the closure is not run
ClosedCall(x, res) ==
    /\ ~up
    /\ res = "closed"
    /\ UNCHANGED avars

Close ==
    /\ up
    /\ \A x \in Workers : ws[x].st \in {"idle", "done"}      \* C15: no call in flight
    /\ up' = FALSE
    /\ UNCHANGED <<commits, ws>>

\* process crash.  A commit whose LPCommit has been taken is in `commits` (it may or may
\* may not have been acknowledged); one whose LPCommit has not been taken is not.  With
\* AtomicInflight = FALSE (the per-key reading of C03) the commit that was being applied may
\* additionally survive for a strict non-empty subset of its keys.
Partial(x) == IF AtomicInflight \/ ws[x].st # "committing" \/ ~HasW(x) \/ Conflict(x)
              THEN {}
              ELSE {[k \in Keys |-> IF k \in S THEN ws[x].w[k] ELSE Unw] :
                      S \in (SUBSET WKeys(ws[x].w)) \ {{}, WKeys(ws[x].w)}}

Crash ==
    /\ up' = FALSE
    /\ ws' = [x \in Workers |-> Idle]
    /\ \/ UNCHANGED commits
       \/ \E x \in Workers : \E m \in Partial(x) : commits' = Append(commits, m)

Open ==
    /\ ~up
    /\ up' = TRUE
    /\ ws' = [x \in Workers |-> Idle]
    /\ UNCHANGED commits

=============================================================================
