----------------------------- MODULE TraceCrash -----------------------------
(***************************************************************************)
(* IMPLEMENTATION-LEVEL trace validation of the durability design: the       *)
(* stream of an uncrashed single-client run of the real engine - every       *)
(* completed file-system operation (fs.post hooks: create / write / sync /   *)
(* rename / remove of wal and table files) merged with the committer,        *)
(* flusher, compaction, Close and recovery hooks - must be a behaviour of    *)
(* Crash.tla: the engine performs its file-system operations in an order     *)
(* the specification allows (wal write and sync before the acknowledgement,  *)
(* table create - write - sync - rename before the wal is deleted,           *)
(* compaction output complete before an input is removed, Close behind the   *)
(* queued memtables, recovery steps in order), on the files the              *)
(* specification expects (files are numbered in creation order on both       *)
(* sides), with the commit timestamps the specification computes - also      *)
(* after a clean reopen.                                                     *)
(*                                                                         *)
(* Crash.tla is instantiated with MemThreshold = 0 and L0Target = 0: byte   *)
(* sizes and key ranges are not modelled, the recorded run says whether a    *)
(* commit rotated and which tables a compaction merged into which level.     *)
(* The queue is unbounded here (blocking is Conc.tla's subject).             *)
(*                                                                         *)
(* Hand-offs are rendezvous seen from both sides: the receiving flusher can  *)
(* report `take` before the sender reports `enq` / `clenq`, and it can act   *)
(* on the close signal before Close reports `clsignal` (variable `early`).   *)
(* A rejection here with the contract satisfied is DRIFT, not a violation.   *)
(***************************************************************************)
EXTENDS Crash, Json, IOUtils, SequencesExt

Trace == ndJsonDeserialize(IOEnv.TRACE)
VARIABLES l,
          early    \* "" | "cm" | "cl": the flusher took a memtable before the sender reported the hand-off
tvars == <<allvars, l, early>>
E == Trace[l]
IsEv(name) == l <= Len(Trace) /\ E.ev = name /\ l' = l + 1
Aux == UNCHANGED <<cpbuf, cltab, ragged, closes>>
Same == UNCHANGED early
Stutter == UNCHANGED allvars

TInit == CInit /\ l = 1 /\ early = ""

TReset == /\ IsEv("reset")
          /\ wals' = (1 :> [recs |-> <<>>, synced |-> 0])
          /\ tabs' = {} /\ nextWal' = 2 /\ nextTab' = 1
          /\ mem' = [wal |-> 1, txs |-> {}] /\ imm' = <<>> /\ q' = <<>> /\ handles' = {}
          /\ cm' = [pc |-> "idle", t |-> 0, todo |-> {}]
          /\ fl' = [pc |-> "wait", item |-> 0, tab |-> 0, ins |-> {}, lvl |-> 0]
          /\ cl' = Idle /\ rc' = [pc |-> "idle", old |-> <<>>, pos |-> 0]
          /\ phase' = "run" /\ nextTs' = 1 /\ txw' = <<>> /\ acked' = {} /\ crashes' = 0 /\ panic' = ""
          /\ memrecs' = {} /\ cpbuf' = <<>> /\ cltab' = 0 /\ ragged' = {} /\ closes' = 0
          /\ early' = ""

\* ------------------------------------------------------------------ committer
TBegin == /\ IsEv("begin") /\ nextTs = E.ts
          /\ CmBegin /\ txw'[Len(txw')].ks = ToSet(E.ks)
          /\ Aux /\ Same
TWal == /\ IsEv("wal")
        /\ CASE E.op = "write"  -> mem.wal = E.id /\ CmWalWrite /\ Aux
             [] E.op = "sync"   -> mem.wal = E.id /\ CmWalSync /\ Aux
             [] E.op = "create" -> /\ nextWal = E.id
                                   /\ IF phase = "rec" THEN RcNewWal /\ UNCHANGED closes ELSE CmRotate /\ Aux
             [] E.op = "remove" -> IF cl.pc = "delwal"
                                   THEN mem.wal = E.id /\ ClSteps /\ wals' = WalDrop(E.id) /\ UNCHANGED <<ragged, closes>>
                                   ELSE fl.item = E.id /\ fl.pc = "delwal" /\ FlFlushSteps /\ Aux
        /\ Same
TApplied == IsEv("applied") /\ cm.pc = "placed" /\ Stutter /\ Same
TRotated == IsEv("rotated") /\ cm.pc = "enq" /\ Stutter /\ Same
TEnq == /\ IsEv("enq")
        /\ IF early = "cm"
           THEN /\ cm.pc = "enq" /\ cm' = [cm EXCEPT !.pc = "ack"] /\ early' = ""
                /\ UNCHANGED <<wals, tabs, nextWal, nextTab, mem, imm, q, handles, fl, cl, rc, phase, nextTs, txw, acked,
                               crashes, panic, memrecs, cpbuf, cltab, ragged, closes>>
           ELSE CmEnqueue /\ Aux /\ Same
TAck == IsEv("ack") /\ CmAck /\ Aux /\ Same

\* ------------------------------------------------------------------ flusher
\* the memtable the sender is about to hand over (rendezvous: reported by the receiver first)
TTake == /\ IsEv("take")
         /\ IF q = <<>> /\ (cm.pc = "enq" \/ cl.pc = "enq") /\ fl.pc = "wait"
            THEN /\ fl' = [fl EXCEPT !.pc = "create", !.item = imm[Len(imm)].wal]
                 /\ early' = (IF cm.pc = "enq" THEN "cm" ELSE "cl")
                 /\ UNCHANGED <<wals, tabs, nextWal, nextTab, mem, imm, q, handles, cm, cl, rc, phase, nextTs, txw, acked,
                                crashes, panic, memrecs, cpbuf, cltab, ragged, closes>>
            ELSE FlTake /\ Aux /\ Same
TTab == /\ IsEv("tab")
        /\ CASE E.op = "create" -> /\ nextTab = E.id
                                   /\ IF fl.pc = "create" THEN E.lvl = 0 /\ FlFlushSteps /\ Aux
                                      ELSE fl.pc = "cp-create" /\ fl.lvl = E.lvl /\ CpSteps /\ UNCHANGED <<cltab, ragged, closes>>
             [] E.op \in {"write", "sync", "rename"} ->
                                   /\ fl.tab = E.id
                                   /\ IF fl.pc = E.op THEN FlFlushSteps /\ Aux
                                      ELSE fl.pc = "cp-" \o E.op /\ CpSteps /\ UNCHANGED <<cltab, ragged, closes>>
             [] E.op = "remove" -> /\ fl.pc = "cp-remove" /\ E.id \in fl.ins
                                   /\ CpSteps /\ tabs' = tabs \ {Tab(E.id)} /\ UNCHANGED <<cltab, ragged, closes>>
        /\ Same
TFlushed == IsEv("flushed") /\ fl.pc = "compact?" /\ Stutter /\ Same
TCpStart == IsEv("cpstart") /\ CpStart(ToSet(E.ins), E.lvl) /\ UNCHANGED <<cltab, ragged, closes>> /\ Same
\* lm.compact: every input has been removed
TCpEnd == /\ IsEv("cpend") /\ fl.pc = "cp-remove" /\ fl.ins \cap TabIds = {}
          /\ CpSteps /\ fl'.pc = "compact?" /\ UNCHANGED <<cltab, ragged, closes>> /\ Same
TCompacted == IsEv("compacted") /\ CpNoMore /\ UNCHANGED <<cltab, ragged, closes>> /\ Same
TRemoved == IsEv("removed") /\ FlRemoveImm /\ UNCHANGED <<cltab, ragged, closes>> /\ Same

\* ------------------------------------------------------------------ Close, reopen
TClStart == IsEv("clstart") /\ ClStart /\ UNCHANGED <<cltab, ragged>> /\ Same
TClEnq == /\ IsEv("clenq")
          /\ IF early = "cl"
             THEN /\ cl.pc = "enq" /\ cl' = [pc |-> "signal"] /\ early' = ""
                  /\ UNCHANGED <<wals, tabs, nextWal, nextTab, mem, imm, q, handles, cm, fl, rc, phase, nextTs, txw, acked,
                                 crashes, panic, memrecs, cpbuf, cltab, ragged, closes>>
             ELSE ClEnqueue /\ UNCHANGED <<cltab, ragged, closes>> /\ Same
\* the flusher can act on the close signal before Close reports it: silent, only right before a take
SSignal == /\ l <= Len(Trace) /\ E.ev = "take" /\ l' = l
           /\ ClSignal /\ UNCHANGED <<cltab, ragged, closes>> /\ Same
TClSignal == /\ IsEv("clsignal")
             /\ IF cl.pc = "wait" THEN Stutter ELSE ClSignal /\ UNCHANGED <<cltab, ragged, closes>>
             /\ Same
TClDone == IsEv("cldone") /\ ClDone /\ UNCHANGED <<ragged, closes>> /\ Same
TReopen == IsEv("reopen") /\ Reopen /\ UNCHANGED closes /\ Same
TRecTables == IsEv("rectables") /\ RcTables /\ UNCHANGED closes /\ Same
\* rec.done reports the highest stored version: the oracle continues above it
TRecDone == IsEv("recdone") /\ RcDone /\ nextTs' = E.ts + 1 /\ UNCHANGED closes /\ Same

TNext == TReset \/ TBegin \/ TWal \/ TApplied \/ TRotated \/ TEnq \/ TAck \/ TTake \/ TTab \/ TFlushed \/ TCpStart
         \/ TCpEnd \/ TCompacted \/ TRemoved \/ TClStart \/ TClEnq \/ SSignal \/ TClSignal \/ TClDone \/ TReopen
         \/ TRecTables \/ TRecDone
TSpec == TInit /\ [][TNext]_tvars

ASSUME TLCSet(1, 0)
HighWater == /\ TLCSet(1, IF TLCGet(1) < l THEN l ELSE TLCGet(1))
             /\ (l > Len(Trace)) => /\ PrintT(<<"HIGHWATER", l, Len(Trace)>>)
                                    /\ TLCSet("exit", TRUE)
Accepted  == /\ PrintT(<<"HIGHWATER", TLCGet(1), Len(Trace)>>)
             /\ TLCGet(1) = Len(Trace) + 1
=============================================================================
