------------------------------ MODULE TraceFilter ------------------------------
(***************************************************************************)
(* CONTRACT of pkg/filter (C16) as a trace validator over aggregate events   *)
(* (no big sets inside TLC): the harness builds a filter from a set of       *)
(* entries, asks Contains for the user key of every entry, and reports       *)
(*   Build   n members  denied                                               *)
(*   Rebuilt n members  missing     (filter rebuilt from a table file by     *)
(*                                   recovery: lookups of stored keys)       *)
(*   Held    n members  denied      (every filter the level manager holds,   *)
(*                                   after flush / compaction / recovery,    *)
(*                                   asked for every entry of its table)     *)
(* The contract: denied = 0 and missing = 0, for every n >= 1.               *)
(***************************************************************************)
EXTENDS Integers, Sequences, TLC, Json, IOUtils
Trace == ndJsonDeserialize(IOEnv.TRACE)
VARIABLE l
E == Trace[l]
Init == l = 1
Next == /\ l <= Len(Trace)
        /\ E.n >= 1 /\ E.members >= 1
        /\ E.denied = 0
        /\ l' = l + 1
TSpec == Init /\ [][Next]_l
ASSUME TLCSet(1, 0)
HighWater == /\ TLCSet(1, IF TLCGet(1) < l THEN l ELSE TLCGet(1))
             /\ (l > Len(Trace)) => /\ PrintT(<<"HIGHWATER", l, Len(Trace)>>)
                                    /\ TLCSet("exit", TRUE)
Accepted  == /\ PrintT(<<"HIGHWATER", TLCGet(1), Len(Trace)>>)
             /\ TLCGet(1) = Len(Trace) + 1
=============================================================================
