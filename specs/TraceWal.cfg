SPECIFICATION TSpec
CONSTRAINT HighWater
POSTCONDITION Accepted
CHECK_DEADLOCK FALSE
