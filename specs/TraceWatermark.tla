---------------------------- MODULE TraceWatermark ----------------------------
(***************************************************************************)
(* Trace validation of recorded executions of the real pkg/watermark        *)
(* against Watermark.tla.  Events (ndjson, env TRACE), in recording order:  *)
(*   Reset                   a fresh WaterMark                              *)
(*   Inv   g kind ts         Begin ("b") / Done ("d") / WaitForMark ("w")   *)
(*   Ret   g res             the call returned (res "nil" | "ctx")          *)
(*   Cancel g                the harness cancelled the context of g's wait  *)
(*   Obs   v                 DoneUntil() returned v                         *)
(*   Quiesce v               all Begin/Done calls returned and the consumer *)
(*                           has taken every mark; DoneUntil() = v; every   *)
(*                           wait not listed as returned is still parked    *)
(* Unobservable steps (the channel send of a call, the consumer's Take /    *)
(* Store / Wake) are silent steps TLC searches over; they are explored only *)
(* where an observation can depend on them.                                 *)
(***************************************************************************)
EXTENDS Watermark, TLC, Json, IOUtils

Trace == ndJsonDeserialize(IOEnv.TRACE)
VARIABLE l
tvars == <<vars, l>>
E == Trace[l]
IsEv(name) == l <= Len(Trace) /\ E.ev = name /\ l' = l + 1

TInit == Init /\ l = 1

TReset == /\ IsEv("Reset")
          /\ chan' = <<>> /\ pend' = <<>> /\ heap' = {} /\ du' = 0
          /\ cons' = [pc |-> "take", newdu |-> 0, popped |-> {}] /\ waiters' = {}
          /\ cl' = [g \in Procs |-> [st |-> "idle", kind |-> "b", ts |-> 0, n |-> 0]]
          /\ ncalls' = 0 /\ procB' = Zero /\ procD' = Zero /\ open' = Zero /\ enqD' = Zero

TInv == IsEv("Inv") /\ Call(E.g, E.kind, E.ts)
\* Begin/Done return once the mark is in the channel; WaitForMark returns nil when woken (or on the
\* fast path) and the context error only after its context was cancelled
TRet == /\ IsEv("Ret")
        /\ IF cl[E.g].kind = "w"
           THEN \/ E.res = "nil" /\ WaitRet(E.g)
                \/ /\ E.res = "nil" /\ cl[E.g].st = "wokenc" /\ cl' = [cl EXCEPT ![E.g].st = "idle"]
                   /\ UNCHANGED <<chan, pend, heap, du, cons, waiters, ncalls, procB, procD, open, enqD>>
                \/ /\ E.res = "ctx" /\ cl[E.g].st \in {"cancelled", "wokenc"} /\ cl' = [cl EXCEPT ![E.g].st = "idle"]
                   /\ UNCHANGED <<chan, pend, heap, du, cons, waiters, ncalls, procB, procD, open, enqD>>
           ELSE \/ cl[E.g].st = "send" /\ Send(E.g)              \* the send is the last thing the call did
                \/ cl[E.g].st = "idle" /\ UNCHANGED vars         \* it was sent earlier (silent step)
\* the context ended: whatever the wait was doing, it may now return the context error.  A wait whose
\* channel is closed as well - before the cancellation or between it and the return - may return
\* either result (Go's select chooses among ready cases): state "wokenc"
TCancel == /\ IsEv("Cancel")
           /\ cl[E.g].kind = "w" /\ cl[E.g].st \in {"send", "parked", "woken"}
           /\ cl' = [cl EXCEPT ![E.g].st = IF @ = "woken" THEN "wokenc" ELSE "cancelled"]
           /\ UNCHANGED <<chan, pend, heap, du, cons, waiters, ncalls, procB, procD, open, enqD>>
TObs == IsEv("Obs") /\ E.v = du /\ UNCHANGED vars
TQuiesce == /\ IsEv("Quiesce")
            /\ chan = <<>> /\ cons.pc = "take"
            /\ \A g \in Procs : cl[g].st \notin {"send", "woken", "wokenc"}
            /\ E.v = du
            /\ WaitLive
            /\ UNCHANGED vars

NextObserves == l <= Len(Trace) /\ E.ev \in {"Obs", "Quiesce", "Ret"}
Silent == /\ NextObserves /\ UNCHANGED l
          /\ \/ \E g \in Procs : Send(g) \/ WaitFast(g)
             \/ Consumer

TNext == TReset \/ TInv \/ TRet \/ TCancel \/ TObs \/ TQuiesce \/ Silent
TSpec == TInit /\ [][TNext]_tvars

ASSUME TLCSet(1, 0)
HighWater == /\ TLCSet(1, IF TLCGet(1) < l THEN l ELSE TLCGet(1))
             /\ (l > Len(Trace)) => /\ PrintT(<<"HIGHWATER", l, Len(Trace)>>)
                                    /\ TLCSet("exit", TRUE)
Accepted  == /\ PrintT(<<"HIGHWATER", TLCGet(1), Len(Trace)>>)
             /\ TLCGet(1) = Len(Trace) + 1
=============================================================================
