------------------------------ MODULE TraceLookup ------------------------------
(***************************************************************************)
(* CONTRACT of the table level (C09, C10) as a trace validator.             *)
(* State: the set of versions ever flushed and the largest discard          *)
(* watermark any compaction ran with.  Events (ndjson, env TRACE):          *)
(*   Reset                                                                  *)
(*   Flush    vers: [[k, ts, tomb], ...]                                    *)
(*   Compact  wm                    (checkAndCompact / compactL0 / compactLN) *)
(*   Recover                        (handles rebuilt from the files)        *)
(*   Lookup   k ts found rts rtomb  (the level lookup of key k at ts)       *)
(* C10: a lookup returns the newest stored version of the key at or below   *)
(* ts.  C09: compaction does not change that for any ts >= watermark        *)
(* (lookups below the watermark of an earlier compaction are not judged).   *)
(***************************************************************************)
EXTENDS Integers, Sequences, FiniteSets, TLC, Json, IOUtils

Trace == ndJsonDeserialize(IOEnv.TRACE)
VARIABLES all, wmmax, l
vars == <<all, wmmax, l>>
E == Trace[l]
IsEv(name) == l <= Len(Trace) /\ E.ev = name /\ l' = l + 1

Init == all = {} /\ wmmax = 0 /\ l = 1
Cands(k, ts) == {v \in all : v.k = k /\ v.ts <= ts}
Newest(S) == CHOOSE v \in S : \A u \in S : u.ts <= v.ts

TReset == IsEv("Reset") /\ all' = {} /\ wmmax' = 0
TFlush == /\ IsEv("Flush")
          /\ all' = all \cup {[k |-> E.vers[i][1], ts |-> E.vers[i][2], tomb |-> (E.vers[i][3] = 1)] : i \in DOMAIN E.vers}
          /\ UNCHANGED wmmax
TCompact == IsEv("Compact") /\ wmmax' = (IF E.wm > wmmax THEN E.wm ELSE wmmax) /\ UNCHANGED all
TRecover == IsEv("Recover") /\ UNCHANGED <<all, wmmax>>
TLookup == /\ IsEv("Lookup")
           /\ E.ts >= wmmax =>
                 IF Cands(E.k, E.ts) = {} THEN ~E.found
                 ELSE E.found /\ E.rts = Newest(Cands(E.k, E.ts)).ts /\ E.rtomb = Newest(Cands(E.k, E.ts)).tomb
           /\ UNCHANGED <<all, wmmax>>
Next == TReset \/ TFlush \/ TCompact \/ TRecover \/ TLookup
TSpec == Init /\ [][Next]_vars

ASSUME TLCSet(1, 0)
HighWater == /\ TLCSet(1, IF TLCGet(1) < l THEN l ELSE TLCGet(1))
             /\ (l > Len(Trace)) => /\ PrintT(<<"HIGHWATER", l, Len(Trace)>>)
                                    /\ TLCSet("exit", TRUE)
Accepted  == /\ PrintT(<<"HIGHWATER", TLCGet(1), Len(Trace)>>)
             /\ TLCGet(1) = Len(Trace) + 1
=============================================================================
