-------------------------------- MODULE Crash --------------------------------
(***************************************************************************)
(* IMPLEMENTATION-SHAPED specification of originium's durability design:   *)
(* wal files, table files, the committer, the background flusher with      *)
(* compaction, Close, process crash and recovery.  Every file-system        *)
(* operation of the code is its own action (the hooks fs.pre/fs.post        *)
(* bracket exactly these), and Crash is enabled in every state, so TLC      *)
(* visits every crash point of a bounded instance - also inside recovery.   *)
(*                                                                         *)
(*   committer  (txn.go Commit -> db.rawset -> memtable.set -> WAL.Write)   *)
(*     CmBegin     take commit ts                                          *)
(*     CmWalWrite  one append of the whole batch          fs write          *)
(*     CmWalSync                                          fs sync           *)
(*     CmAck       Commit returns                                           *)
(*     CmRotate    freeze, new wal file                   fs create         *)
(*     CmEnqueue   flushC <- imt                                            *)
(*   flusher    (db.run -> flushImmutable -> levelManager.writeTable)       *)
(*     FlTake, TbCreate, TbWrite, TbSync, TbRename, FlDelWal                *)
(*     CpStart, (TbCreate..TbRename), CpRemove(f)..., FlRemoveImm           *)
(*   Close      ClStart (freeze, push), ClEnqueue, ClSignal, ClDone          *)
(*   recovery   (Open): RcNewWal, RcCopy (one record: write+sync),          *)
(*              RcDelWal, RcTables, RcDone                                  *)
(*                                                                         *)
(* Files keep a written and a synced length.  Crash with TornTails = FALSE  *)
(* is the process-crash model of C03/C04 (everything written persists);     *)
(* with TornTails = TRUE every file may lose any suffix written after its   *)
(* last fsync (C14).                                                        *)
(*                                                                         *)
(* Deviation switches (all FALSE = the repaired code): the behaviours of the *)
(* pinned tree, kept as a permanent self-test of the invariants.            *)
(***************************************************************************)
EXTENDS Integers, Sequences, FiniteSets, TLC

CONSTANTS Keys, MaxTxn, MemThreshold, QueueLen, L0Target, MaxCrashes, MaxCloses, TornTails,
          BugDeleteInputsFirst,   \* D5: compaction removes its inputs before writing the output
          BugNoSyncTable,         \* D5: table not fsynced before it is relied upon
          BugCreateInPlace,       \* D6: tables created under their final name and filled afterwards
          BugWalSkipped,          \* D7: recovery may skip an old wal (version string compare)
          BugTornTailFatal,       \* D8: a torn last record makes recovery fail
          BugPerEntryWal,         \* D9: one wal append + fsync per entry of a transaction
          BugAckBeforeSync,       \* Commit returns before the wal is synced
          BugDelWalFirst,         \* the wal of a memtable is deleted before its table is complete
          BugCloseFlushesFirst,   \* Close flushes the active memtable itself, ahead of the queued (older) ones
          BugExitWithQueue        \* Close returns (the flusher exits) although memtables are still queued

VARIABLES
    wals,      \* wal id -> [recs: Seq(rec), synced: Nat]           (the directory's *.log files)
    tabs,      \* set of [id, lvl, txs, final, data, synced]         (*.db / *.db.tmp files)
    nextWal, nextTab,
    mem,       \* [wal, txs]                       active memtable
    imm,       \* Seq([wal, txs])                  immutables, oldest first
    q,         \* Seq(wal id)                      flushC
    handles,   \* set of table ids the level manager knows
    cm,        \* committer: [pc, t, todo]
    fl,        \* flusher:   [pc, item, tab, ins]
    cl,        \* Close:     [pc]
    rc,        \* recovery:  [pc, old, pos]
    phase,     \* "run" | "closing" | "down" | "rec"
    nextTs,
    txw,       \* txn id -> [ks: keys it writes, ts: its commit timestamp].  Identities are never reused;
               \* a timestamp is reused after a crash that persisted nothing of its transaction
    acked,     \* set of txn ids whose Commit returned
    crashes,
    panic,     \* "" or what went wrong (Open failed, ...)
    memrecs,   \* records in the active memtable that are not (yet) whole transactions of mem.txs
    cpbuf,     \* merged content of a running compaction (read into memory when it starts)
    cltab,     \* table Close is writing
    ragged,    \* wal ids whose tail ends in a torn record after a crash
    closes     \* number of Close calls so far (bounds the model)

vars == <<wals, tabs, nextWal, nextTab, mem, imm, q, handles, cm, fl, cl, rc, phase, nextTs, txw, acked, crashes, panic>>

Rec(t, k) == [t |-> t, ts |-> txw[t].ts, k |-> k]
TxRecs(t) == {Rec(t, k) : k \in txw[t].ks}
NewId == Len(txw) + 1
Range(s) == {s[i] : i \in DOMAIN s}
SeqOfSet(S) == CHOOSE s \in [1..Cardinality(S) -> S] : Range(s) = S

Idle == [pc |-> "idle"]

Init ==
    /\ wals = (1 :> [recs |-> <<>>, synced |-> 0])
    /\ tabs = {} /\ nextWal = 2 /\ nextTab = 1
    /\ mem = [wal |-> 1, txs |-> {}] /\ imm = <<>> /\ q = <<>> /\ handles = {}
    /\ cm = [pc |-> "idle", t |-> 0, todo |-> {}]
    /\ fl = [pc |-> "wait", item |-> 0, tab |-> 0, ins |-> {}, lvl |-> 0]
    /\ cl = Idle /\ rc = [pc |-> "idle", old |-> <<>>, pos |-> 0]
    /\ phase = "run" /\ nextTs = 1 /\ txw = <<>> /\ acked = {} /\ crashes = 0 /\ panic = ""

\* ------------------------------------------------------------------ helpers
WalDrop(w) == [x \in (DOMAIN wals) \ {w} |-> wals[x]]

\* what a reader sees in memory + tables: the set of (txn, key) records reachable
TabContent(tb) == UNION {TxRecs(t) : t \in tb.txs} \cup tb.recs
Visible == UNION ({TxRecs(t) : t \in mem.txs}
                  \cup {UNION {TxRecs(t) : t \in imm[i].txs} \cup imm[i].recs : i \in DOMAIN imm}
                  \cup {TabContent(tb) : tb \in {x \in tabs : x.id \in handles}})
\* DB.search as the code does it: the first source that has the key wins - the active memtable,
\* then the immutables newest first, then the tables (best version over all tables)
NewestIn(S, k) == CHOOSE r \in {x \in S : x.k = k} : \A y \in {x \in S : x.k = k} : y.ts <= r.ts
Has(S, k) == \E x \in S : x.k = k
MemRecs == UNION {TxRecs(t) : t \in mem.txs} \cup memrecs
ImmRecs(i) == UNION {TxRecs(t) : t \in imm[i].txs} \cup imm[i].recs
TabRecs == UNION {TabContent(tb) : tb \in {x \in tabs : x.id \in handles}}
RECURSIVE ImmSearch(_, _)
ImmSearch(i, k) == IF i = 0 THEN [t |-> 0, ts |-> 0, k |-> k]
                   ELSE IF Has(ImmRecs(i), k) THEN NewestIn(ImmRecs(i), k) ELSE ImmSearch(i - 1, k)
Search(k) == IF Has(MemRecs, k) THEN NewestIn(MemRecs, k)
             ELSE IF ImmSearch(Len(imm), k).ts # 0 THEN ImmSearch(Len(imm), k)
             ELSE IF Has(TabRecs, k) THEN NewestIn(TabRecs, k)
             ELSE [t |-> 0, ts |-> 0, k |-> k]
\* with partial batches (per-entry wal) the memtable may hold single records; track them too
allvars == <<vars, memrecs, cpbuf, cltab, ragged, closes>>
VisibleRecs == Visible \cup memrecs


\* ------------------------------------------------------------------ committer
CmBegin ==
    /\ phase = "run" /\ cm.pc = "idle" /\ Len(txw) < MaxTxn /\ cl.pc = "idle"
    /\ \E ks \in (SUBSET Keys) \ {{}} :
         /\ txw' = Append(txw, [ks |-> ks, ts |-> nextTs])
         /\ cm' = [pc |-> "write", t |-> NewId, todo |-> ks]
    /\ nextTs' = nextTs + 1
    /\ UNCHANGED <<wals, tabs, nextWal, nextTab, mem, imm, q, handles, fl, cl, rc, phase, acked, crashes, panic, memrecs>>

\* one append of the whole batch (or, with the switch, of one entry)
CmWalWrite ==
    /\ phase = "run" /\ cm.pc = "write"
    /\ LET batch == IF BugPerEntryWal THEN {Rec(cm.t, CHOOSE k \in cm.todo : TRUE)} ELSE {Rec(cm.t, k) : k \in cm.todo}
           rest  == cm.todo \ {r.k : r \in batch} IN
       /\ wals' = [wals EXCEPT ![mem.wal].recs = @ \o SeqOfSet(batch)]
       /\ cm' = [cm EXCEPT !.pc = "sync", !.todo = rest]
       /\ memrecs' = memrecs \cup batch
    /\ UNCHANGED <<tabs, nextWal, nextTab, mem, imm, q, handles, fl, cl, rc, phase, nextTs, txw, acked, crashes, panic>>

CmWalSync ==
    /\ phase = "run" /\ cm.pc = "sync"
    /\ wals' = [wals EXCEPT ![mem.wal].synced = IF BugAckBeforeSync THEN @ ELSE Len(wals[mem.wal].recs)]
    /\ IF cm.todo # {}
       THEN cm' = [cm EXCEPT !.pc = IF Cardinality(mem.txs) + 1 >= MemThreshold /\ BugPerEntryWal THEN "rotate-mid" ELSE "write"]
            /\ UNCHANGED <<mem, memrecs>>
       ELSE /\ cm' = [cm EXCEPT !.pc = "placed"]
            /\ mem' = [mem EXCEPT !.txs = @ \cup {cm.t}]
            /\ memrecs' = memrecs \ TxRecs(cm.t)
    /\ UNCHANGED <<tabs, nextWal, nextTab, imm, q, handles, fl, cl, rc, phase, nextTs, txw, acked, crashes, panic>>

\* rotation: freeze, push on the immutables, new memtable with a new wal file (fs create)
Rotate(next) ==
    /\ imm' = Append(imm, [wal |-> mem.wal, txs |-> mem.txs, recs |-> memrecs])
    /\ wals' = wals @@ (nextWal :> [recs |-> <<>>, synced |-> 0])
    /\ mem' = [wal |-> nextWal, txs |-> {}]
    /\ memrecs' = {}
    /\ nextWal' = nextWal + 1
    /\ cm' = [cm EXCEPT !.pc = next]
    /\ UNCHANGED <<tabs, nextTab, q, handles, fl, cl, rc, phase, nextTs, txw, acked, crashes, panic>>

CmRotateMid == phase = "run" /\ cm.pc = "rotate-mid" /\ Rotate("enq-mid")
\* MemThreshold = 0: the byte threshold of the code is not modelled, the environment decides
\* (trace validation: the recorded run says whether the commit rotated)
MustRotate == MemThreshold > 0 /\ Cardinality(mem.txs) >= MemThreshold
MayRotate  == MustRotate \/ (MemThreshold = 0 /\ mem.txs # {})
CmRotate    == phase = "run" /\ cm.pc = "placed" /\ MayRotate /\ Rotate("enq")

CmEnqueue ==
    /\ phase = "run" /\ cm.pc \in {"enq", "enq-mid"}
    /\ Len(q) < QueueLen \/ (QueueLen = 0 /\ fl.pc = "wait" /\ q = <<>>)      \* unbuffered: hand-off
    /\ q' = Append(q, imm[Len(imm)].wal)
    /\ cm' = [cm EXCEPT !.pc = IF cm.pc = "enq" THEN "ack" ELSE "write"]
    /\ UNCHANGED <<wals, tabs, nextWal, nextTab, mem, imm, handles, fl, cl, rc, phase, nextTs, txw, acked, crashes, panic, memrecs>>

CmAck ==
    /\ phase = "run" /\ (cm.pc = "ack" \/ (cm.pc = "placed" /\ ~MustRotate))
    /\ acked' = acked \cup {cm.t}
    /\ cm' = [pc |-> "idle", t |-> 0, todo |-> {}]
    /\ UNCHANGED <<wals, tabs, nextWal, nextTab, mem, imm, q, handles, fl, cl, rc, phase, nextTs, txw, crashes, panic, memrecs>>

\* ------------------------------------------------------------------ table files (levelManager.writeTable)
NewTab(lvl, txs, recs) == [id |-> nextTab, lvl |-> lvl, txs |-> txs, recs |-> recs, final |-> BugCreateInPlace,
                           data |-> FALSE, synced |-> FALSE]
Tab(id) == CHOOSE tb \in tabs : tb.id = id
SetTab(id, tb) == (tabs \ {Tab(id)}) \cup {tb}

TbCreate(pcfrom, pcto, lvl, txs, recs) ==
    /\ fl.pc = pcfrom
    /\ tabs' = tabs \cup {NewTab(lvl, txs, recs)}
    /\ nextTab' = nextTab + 1
    /\ fl' = [fl EXCEPT !.pc = pcto, !.tab = nextTab]
TbWrite(pcfrom, pcto) ==
    /\ fl.pc = pcfrom
    /\ tabs' = SetTab(fl.tab, [Tab(fl.tab) EXCEPT !.data = TRUE])
    /\ fl' = [fl EXCEPT !.pc = pcto]
TbSync(pcfrom, pcto) ==
    /\ fl.pc = pcfrom
    /\ tabs' = SetTab(fl.tab, [Tab(fl.tab) EXCEPT !.synced = IF BugNoSyncTable THEN @ ELSE TRUE])
    /\ fl' = [fl EXCEPT !.pc = pcto]
TbRename(pcfrom, pcto) ==
    /\ fl.pc = pcfrom
    /\ tabs' = SetTab(fl.tab, [Tab(fl.tab) EXCEPT !.final = TRUE])
    /\ fl' = [fl EXCEPT !.pc = pcto]

\* ------------------------------------------------------------------ flusher (db.run)
Running == phase \in {"run", "closing"}
ImmOf(w) == CHOOSE i \in DOMAIN imm : imm[i].wal = w

FlTake ==
    /\ Running /\ fl.pc = "wait" /\ q # <<>>
    /\ fl' = [fl EXCEPT !.pc = IF BugDelWalFirst THEN "delwal-first" ELSE "create", !.item = Head(q)]
    /\ q' = Tail(q)
    /\ UNCHANGED <<wals, tabs, nextWal, nextTab, mem, imm, handles, cm, cl, rc, phase, nextTs, txw, acked, crashes, panic, memrecs>>

FlItem == imm[ImmOf(fl.item)]
FlFlushSteps ==
    /\ Running
    /\ \/ TbCreate("create", "write", 0, FlItem.txs, FlItem.recs) /\ UNCHANGED <<wals, handles>>
       \/ TbWrite("write", "sync") /\ UNCHANGED <<wals, nextTab, handles>>
       \/ TbSync("sync", "rename") /\ UNCHANGED <<wals, nextTab, handles>>
       \/ /\ TbRename("rename", IF BugDelWalFirst THEN "compact?" ELSE "delwal") /\ handles' = handles \cup {fl.tab}
          /\ UNCHANGED <<wals, nextTab>>
       \/ /\ fl.pc \in {"delwal", "delwal-first"}
          /\ wals' = WalDrop(fl.item)
          /\ fl' = [fl EXCEPT !.pc = IF fl.pc = "delwal" THEN "compact?" ELSE "create"]
          /\ UNCHANGED <<tabs, nextTab, handles>>
    /\ UNCHANGED <<nextWal, mem, imm, q, cm, cl, rc, phase, nextTs, txw, acked, crashes, panic, memrecs>>

L0 == {h \in handles : Tab(h).lvl = 0}
L1 == {h \in handles : Tab(h).lvl = 1}
MergeTxs(S)  == UNION {Tab(h).txs : h \in S}
MergeRecs(S) == UNION {Tab(h).recs : h \in S}

\* checkAndCompact: L0 -> L1 (all overlapping tables: in this model all of L0 and L1)
CpPcs == {"cp-create", "cp-write", "cp-sync", "cp-rename", "cp-remove", "cp-remove-first"}
TabIds == {tb.id : tb \in tabs}

\* checkAndCompact is a loop: while some level is over its target, merge tables `ins` into one new
\* table of level `lvl` (the inputs are read into memory when a compaction starts), then look again.
\* L0Target > 0: two levels, the rule of the code for them (all of L0 and L1 when L0 is over its
\* target).  L0Target = 0: sizes and key ranges are not modelled, the environment decides which
\* tables are merged into which level (trace validation: the recorded run says so).
CpChoices == IF L0Target > 0
             THEN (IF Cardinality(L0) > L0Target THEN {<<L0 \cup L1, 1>>} ELSE {})
             ELSE {<<ins, lvl>> : ins \in (SUBSET handles) \ {{}}, lvl \in 1..3}
CpStop == L0Target = 0 \/ Cardinality(L0) <= L0Target
CpUnch == UNCHANGED <<wals, tabs, nextWal, nextTab, mem, imm, q, handles, cm, cl, rc, phase, nextTs, txw, acked, crashes, panic, memrecs>>
CpStart(ins, lvl) ==
    /\ Running /\ fl.pc = "compact?" /\ ins # {} /\ ins \subseteq handles
    /\ fl' = [fl EXCEPT !.pc = IF BugDeleteInputsFirst THEN "cp-remove-first" ELSE "cp-create", !.ins = ins, !.lvl = lvl]
    /\ cpbuf' = <<MergeTxs(ins), MergeRecs(ins)>>
    /\ CpUnch
CpNoMore ==
    /\ Running /\ fl.pc = "compact?" /\ CpStop
    /\ fl' = [fl EXCEPT !.pc = "rmimm"] /\ UNCHANGED cpbuf
    /\ CpUnch
CpDecide == fl.pc = "compact?" /\ (CpNoMore \/ \E c \in CpChoices : CpStart(c[1], c[2]))

CpSteps ==
    /\ Running
    /\ \/ TbCreate("cp-create", "cp-write", fl.lvl, cpbuf[1], cpbuf[2]) /\ UNCHANGED <<handles, cpbuf>>
       \/ TbWrite("cp-write", "cp-sync") /\ UNCHANGED <<nextTab, handles, cpbuf>>
       \/ TbSync("cp-sync", "cp-rename") /\ UNCHANGED <<nextTab, handles, cpbuf>>
       \/ /\ TbRename("cp-rename", IF BugDeleteInputsFirst THEN "rmimm" ELSE "cp-remove")
          /\ handles' = (handles \ fl.ins) \cup {fl.tab}
          /\ UNCHANGED <<nextTab, cpbuf>>
       \/ /\ fl.pc \in {"cp-remove", "cp-remove-first"}
          /\ \E h \in fl.ins \cap TabIds : tabs' = tabs \ {Tab(h)}
          /\ UNCHANGED <<nextTab, handles, fl, cpbuf>>
       \/ /\ fl.pc \in {"cp-remove", "cp-remove-first"} /\ fl.ins \cap TabIds = {}
          /\ fl' = [fl EXCEPT !.pc = IF fl.pc = "cp-remove" THEN "compact?" ELSE "cp-create"]
          /\ UNCHANGED <<tabs, nextTab, handles, cpbuf>>
    /\ UNCHANGED <<wals, nextWal, mem, imm, q, cm, cl, rc, phase, nextTs, txw, acked, crashes, panic, memrecs>>

FlRemoveImm ==
    /\ Running /\ fl.pc = "rmimm"
    /\ imm' = SelectSeq(imm, LAMBDA x : x.wal # fl.item)
    /\ fl' = [pc |-> "wait", item |-> 0, tab |-> 0, ins |-> {}, lvl |-> 0]
    /\ UNCHANGED <<wals, tabs, nextWal, nextTab, mem, q, handles, cm, cl, rc, phase, nextTs, txw, acked, crashes, panic, memrecs, cpbuf>>

\* ------------------------------------------------------------------ Close (db.go Close)
\* The caller has no call in flight.  The active memtable is handed to the flusher behind the
\* queued ones (ClEnqueue) - or its empty wal is deleted -, then the flusher is signalled and
\* Close waits until the queue is drained.  With BugCloseFlushesFirst (the pinned code) Close
\* writes the table of the active memtable itself, concurrently with the flusher.
ClStart ==
    /\ phase = "run" /\ cm.pc = "idle" /\ cl.pc = "idle"
    /\ closes < MaxCloses
    /\ closes' = closes + 1
    /\ IF BugCloseFlushesFirst
       THEN /\ fl.pc = "wait"
            /\ phase' = "closing"
            /\ cl' = [pc |-> IF mem.txs = {} /\ memrecs = {} THEN "delwal" ELSE "create"]
            /\ UNCHANGED <<imm, mem, memrecs>>
       ELSE IF mem.txs = {} /\ memrecs = {}                      \* mt.size() = 0
       THEN cl' = [pc |-> "delwal"] /\ UNCHANGED <<imm, mem, memrecs, phase>>
       ELSE /\ imm' = Append(imm, [wal |-> mem.wal, txs |-> mem.txs, recs |-> memrecs])
            /\ mem' = [wal |-> 0, txs |-> {}] /\ memrecs' = {}
            /\ cl' = [pc |-> "enq"] /\ UNCHANGED phase
    /\ UNCHANGED <<wals, tabs, nextWal, nextTab, q, handles, cm, fl, rc, nextTs, txw, acked, crashes, panic, cpbuf>>

ClEnqueue ==
    /\ phase = "run" /\ cl.pc = "enq"
    /\ Len(q) < QueueLen \/ (QueueLen = 0 /\ fl.pc = "wait" /\ q = <<>>)
    /\ q' = Append(q, imm[Len(imm)].wal)
    /\ cl' = [pc |-> "signal"]
    /\ UNCHANGED <<wals, tabs, nextWal, nextTab, mem, imm, handles, cm, fl, rc, phase, nextTs, txw, acked, crashes, panic, memrecs, cpbuf>>

ClSignal ==
    /\ phase = "run" /\ cl.pc = "signal" /\ fl.pc = "wait"      \* closeC is unbuffered: the flusher is in its select
    /\ phase' = "closing" /\ cl' = [pc |-> "wait"]
    /\ UNCHANGED <<wals, tabs, nextWal, nextTab, mem, imm, q, handles, cm, fl, rc, nextTs, txw, acked, crashes, panic, memrecs, cpbuf>>

ClSteps ==
    /\ phase \in {"run", "closing"}
    /\ \/ /\ cl.pc = "create" /\ BugCloseFlushesFirst
          /\ tabs' = tabs \cup {NewTab(0, mem.txs, memrecs)} /\ nextTab' = nextTab + 1 /\ cltab' = nextTab
          /\ cl' = [pc |-> "write"] /\ UNCHANGED <<wals, handles>>
       \/ /\ cl.pc = "write" /\ tabs' = SetTab(cltab, [Tab(cltab) EXCEPT !.data = TRUE])
          /\ cl' = [pc |-> "sync"] /\ UNCHANGED <<wals, nextTab, handles, cltab>>
       \/ /\ cl.pc = "sync" /\ tabs' = SetTab(cltab, [Tab(cltab) EXCEPT !.synced = IF BugNoSyncTable THEN @ ELSE TRUE])
          /\ cl' = [pc |-> "rename"] /\ UNCHANGED <<wals, nextTab, handles, cltab>>
       \/ /\ cl.pc = "rename" /\ tabs' = SetTab(cltab, [Tab(cltab) EXCEPT !.final = TRUE])
          /\ handles' = handles \cup {cltab}
          /\ cl' = [pc |-> "delwal"] /\ UNCHANGED <<wals, nextTab, cltab>>
       \/ /\ cl.pc = "delwal" /\ wals' = WalDrop(mem.wal)
          /\ cl' = [pc |-> IF BugCloseFlushesFirst THEN "wait" ELSE "signal"] /\ UNCHANGED <<tabs, nextTab, handles, cltab>>
    /\ UNCHANGED <<nextWal, mem, imm, q, cm, fl, rc, phase, nextTs, txw, acked, crashes, panic, memrecs, cpbuf>>

ClDone ==
    /\ phase = "closing" /\ cl.pc = "wait" /\ fl.pc = "wait" /\ (q = <<>> \/ BugExitWithQueue)
    /\ phase' = "down" /\ q' = <<>>
    /\ cl' = Idle
    /\ mem' = [wal |-> 0, txs |-> {}] /\ memrecs' = {} /\ imm' = <<>> /\ handles' = {}
    /\ UNCHANGED <<wals, tabs, nextWal, nextTab, cm, fl, rc, nextTs, txw, acked, crashes, panic, cpbuf, cltab>>

\* ------------------------------------------------------------------ crash
CutOptions(w) == IF TornTails THEN wals[w].synced..Len(wals[w].recs) ELSE {Len(wals[w].recs)}
\* every choice of one cut per wal file (built up file by file: the plain function set would be huge)
RECURSIVE CutFns(_)
CutFns(D) == IF D = {} THEN {[x \in {} |-> 0]}
             ELSE LET w == CHOOSE x \in D : TRUE IN
                  {[x \in (DOMAIN f) \cup {w} |-> IF x = w THEN c ELSE f[x]] : f \in CutFns(D \ {w}), c \in CutOptions(w)}
Crash ==
    /\ crashes < MaxCrashes /\ phase # "down"
    /\ crashes' = crashes + 1
    /\ \E cut \in CutFns(DOMAIN wals) :
         /\ wals' = [w \in DOMAIN wals |-> [recs |-> SubSeq(wals[w].recs, 1, cut[w]), synced |-> cut[w]]]
         /\ \E rg \in SUBSET {w \in DOMAIN wals : cut[w] < Len(wals[w].recs)} : ragged' = rg
    /\ \E lost \in SUBSET {tb.id : tb \in {x \in tabs : x.data /\ ~x.synced /\ TornTails}} :
         tabs' = {IF tb.id \in lost THEN [tb EXCEPT !.data = FALSE] ELSE [tb EXCEPT !.synced = tb.data] : tb \in tabs}
    /\ mem' = [wal |-> 0, txs |-> {}] /\ memrecs' = {} /\ imm' = <<>> /\ q' = <<>> /\ handles' = {}
    /\ cm' = [pc |-> "idle", t |-> 0, todo |-> {}]
    /\ fl' = [pc |-> "wait", item |-> 0, tab |-> 0, ins |-> {}, lvl |-> 0]
    /\ cl' = Idle /\ cpbuf' = <<>>
    /\ rc' = [pc |-> "newwal", old |-> <<>>, pos |-> 0]
    /\ phase' = "rec"
    /\ UNCHANGED <<nextWal, nextTab, nextTs, txw, acked, panic, cltab>>

\* ------------------------------------------------------------------ recovery (Open)
Reopen ==      \* Open after a clean Close
    /\ phase = "down"
    /\ rc' = [pc |-> "newwal", old |-> <<>>, pos |-> 0]
    /\ phase' = "rec" /\ ragged' = {}
    /\ UNCHANGED <<wals, tabs, nextWal, nextTab, mem, imm, q, handles, cm, fl, cl, nextTs, txw, acked, crashes, panic, memrecs, cpbuf, cltab>>

SortedWals(S) == CHOOSE s \in [1..Cardinality(S) -> S] : Range(s) = S /\ \A i, j \in DOMAIN s : i < j => s[i] < s[j]

RcNewWal ==     \* newMemtable: wal.Create; older wals = those that compare lower (all, unless skipped)
    /\ phase = "rec" /\ rc.pc = "newwal"
    /\ \E skip \in (IF BugWalSkipped THEN SUBSET (DOMAIN wals) ELSE {{}}) :
         rc' = [pc |-> "copy", old |-> SortedWals((DOMAIN wals) \ skip), pos |-> 1]
    /\ wals' = wals @@ (nextWal :> [recs |-> <<>>, synced |-> 0])
    /\ mem' = [wal |-> nextWal, txs |-> {}]
    /\ nextWal' = nextWal + 1
    /\ UNCHANGED <<tabs, nextTab, imm, q, handles, cm, fl, cl, phase, nextTs, txw, acked, crashes, panic, memrecs, cpbuf, cltab, ragged>>

\* memtable.recover: every record of an old wal is re-logged (write + sync) into the new wal
RcCopy ==
    /\ phase = "rec" /\ rc.pc = "copy" /\ rc.old # <<>>
    /\ LET w == Head(rc.old) IN
       IF w \in ragged /\ BugTornTailFatal
       THEN /\ panic' = "recovery failed on a torn wal tail"
            /\ UNCHANGED <<wals, rc, memrecs>>
       ELSE IF rc.pos <= Len(wals[w].recs)
       THEN /\ wals' = [wals EXCEPT ![mem.wal].recs = Append(@, wals[w].recs[rc.pos]),
                                    ![mem.wal].synced = Len(wals[mem.wal].recs) + 1]
            /\ memrecs' = memrecs \cup {wals[w].recs[rc.pos]}
            /\ rc' = [rc EXCEPT !.pos = @ + 1]
            /\ UNCHANGED panic
       ELSE /\ wals' = WalDrop(w)                                   \* fs remove of the old wal
            /\ rc' = [rc EXCEPT !.old = Tail(@), !.pos = 1]
            /\ UNCHANGED <<memrecs, panic>>
    /\ UNCHANGED <<tabs, nextWal, nextTab, mem, imm, q, handles, cm, fl, cl, phase, nextTs, txw, acked, crashes, cpbuf, cltab, ragged>>

\* levelManager.recover: every *.db file is parsed; an incomplete one makes Open fail
RcTables ==
    /\ phase = "rec" /\ rc.pc = "copy" /\ rc.old = <<>>
    /\ IF \E tb \in tabs : tb.final /\ ~tb.data
       THEN panic' = "recovery failed on an incomplete table file" /\ UNCHANGED <<handles, rc>>
       ELSE /\ handles' = {tb.id : tb \in {x \in tabs : x.final}}
            /\ rc' = [rc EXCEPT !.pc = "oracle"]
            /\ UNCHANGED panic
    /\ UNCHANGED <<wals, tabs, nextWal, nextTab, mem, imm, q, cm, fl, cl, phase, nextTs, txw, acked, crashes, memrecs, cpbuf, cltab, ragged>>

\* whole transactions in memrecs become memtable transactions (bookkeeping only)
RcDone ==
    /\ phase = "rec" /\ rc.pc = "oracle"
    /\ LET maxv == IF VisibleRecs = {} THEN 0 ELSE (CHOOSE r \in VisibleRecs : \A y \in VisibleRecs : y.ts <= r.ts).ts IN
       nextTs' = maxv + 1
    /\ rc' = [pc |-> "idle", old |-> <<>>, pos |-> 0]
    /\ phase' = "run"
    /\ UNCHANGED <<wals, tabs, nextWal, nextTab, mem, imm, q, handles, cm, fl, cl, txw, acked, crashes, panic, memrecs, cpbuf, cltab, ragged>>

Next ==
    \/ ((CmBegin \/ CmWalWrite \/ CmWalSync \/ CmRotate \/ CmRotateMid \/ CmEnqueue \/ CmAck \/ FlTake \/ FlFlushSteps)
          /\ UNCHANGED <<cpbuf, cltab, ragged, closes>>)
    \/ (CpDecide /\ UNCHANGED <<cltab, ragged, closes>>) \/ (CpSteps /\ UNCHANGED <<cltab, ragged, closes>>)
    \/ (FlRemoveImm /\ UNCHANGED <<cltab, ragged, closes>>)
    \/ (ClStart /\ UNCHANGED <<cltab, ragged>>) \/ ((ClEnqueue \/ ClSignal) /\ UNCHANGED <<cltab, ragged, closes>>)
    \/ (ClSteps /\ UNCHANGED <<ragged, closes>>) \/ (ClDone /\ UNCHANGED <<ragged, closes>>)
    \/ ((Crash \/ Reopen \/ RcNewWal \/ RcCopy \/ RcTables \/ RcDone) /\ UNCHANGED closes)

CInit == Init /\ memrecs = {} /\ cpbuf = <<>> /\ cltab = 0 /\ ragged = {} /\ closes = 0
Spec == CInit /\ [][Next /\ panic = ""]_allvars

\* ------------------------------------------------------------------ properties
Recovered == phase = "run" /\ crashes > 0 /\ cm.pc = "idle"
AckedRecs == UNION {TxRecs(t) : t \in acked}
\* C03/C14: Open never fails
OpenOk == panic = ""
\* C03/C14: after recovery every acknowledged write is visible unless a later write replaced it,
\* and nothing is visible that no begun transaction wrote
Durable == (phase = "run" /\ fl.pc \notin CpPcs) =>
              /\ \A r \in AckedRecs : Search(r.k).ts >= r.ts
              /\ \A v \in VisibleRecs : v.t \in DOMAIN txw /\ v.k \in txw[v.t].ks
\* C02: a clean Close leaves everything in tables: no wal file survives it, and after the reopen exactly
\* the acknowledged transactions are visible
ReopenExact == /\ phase = "down" => DOMAIN wals = {}
               /\ (phase = "run" /\ crashes = 0 /\ cm.pc = "idle") => \A v \in VisibleRecs : v.t \in acked
\* C04: every transaction is visible completely or not at all
Atomic == Recovered => \A t \in DOMAIN txw : (TxRecs(t) \cap VisibleRecs) \in {{}, TxRecs(t)}
\* C02/C03: commit timestamps continue above every stored version
Fresh == (phase = "run" /\ cm.pc = "idle") => \A v \in VisibleRecs : v.ts < nextTs
\* C14: nothing acknowledged lives only in unsynced bytes
AckedSynced == phase \in {"run", "closing"} =>
    \A r \in AckedRecs :
       \/ \E w \in DOMAIN wals : \E i \in 1..wals[w].synced : wals[w].recs[i].k = r.k /\ wals[w].recs[i].ts >= r.ts
       \/ \E tb \in tabs : tb.final /\ tb.data /\ tb.synced /\ \E x \in TabContent(tb) : x.k = r.k /\ x.ts >= r.ts
=============================================================================
