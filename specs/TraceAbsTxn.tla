----------------------------- MODULE TraceAbsTxn -----------------------------
(***************************************************************************)
(* Trace validation of recorded API-level executions of the real engine    *)
(* against the contract AbsTxn.  The trace is a newline-delimited JSON     *)
(* file (env TRACE) with one object per API event, in the order of a       *)
(* process-wide recording order.  The linearization points of Begin and    *)
(* Commit are not observable: LPCommit is a silent step TLC searches over  *)
(* (it also decides which Begins in progress see the commit).  Many traces are validated by one TLC run: a "Reset" event starts *)
(* a fresh store.                                                          *)
(*                                                                         *)
(* Acceptance: the position reaches Len(Trace)+1 (the search stops at once *)
(* via TLCSet("exit")); otherwise, after an exhaustive search, the high-    *)
(* water mark of the position (TLC register 1) tells where it failed.      *)
(* Run with -workers 1, CHECK_DEADLOCK FALSE and                           *)
(* -Dtlc2.tool.queue.IStateQueue=StateDeque.                               *)
(***************************************************************************)
EXTENDS AbsTxn, TLC, Json, IOUtils

Trace == ndJsonDeserialize(IOEnv.TRACE)

VARIABLE l                         \* next trace position
tvars == <<cur, ws, up, l>>

E == Trace[l]
IsEv(name) == l <= Len(Trace) /\ E.ev = name /\ l' = l + 1

TInit == AInit /\ l = 1

TReset      == IsEv("Reset") /\ cur' = [k \in Keys |-> Gone] /\ ws' = [x \in Workers |-> Idle] /\ up' = TRUE
TBeginInv   == IsEv("BeginInv")   /\ BeginInv(E.w, E.upd)
TBeginResp  == IsEv("BeginResp")  /\ BeginResp(E.w)
TGet        == IsEv("Get")        /\ Get(E.w, E.k, E.v)
TPut        == IsEv("Put")        /\ (IF E.k = 0 THEN PutEmptyKey(E.w, E.res) ELSE Put(E.w, E.k, E.v, E.res))
TDiscard    == IsEv("Discard")    /\ Discard(E.w)
TCommitInv  == IsEv("CommitInv")  /\ CommitInv(E.w)
TCommitResp == IsEv("CommitResp") /\ CommitResp(E.w, E.res)
TClosedCall == IsEv("ClosedCall") /\ ClosedCall(E.w, E.res)
TClose      == IsEv("Close")      /\ Close
TCrash      == IsEv("Crash")      /\ Crash
TOpen       == IsEv("Open")       /\ Open

\* The linearization point of a Commit is not observable.  It only matters relative to
\* events that read the commit order (the response of a Begin, the response of a Commit, a
\* crash): an LPCommit can always be postponed past invocations, Gets and Puts.  So silent
\* steps are explored only immediately before such an event - this prunes the search without
\* losing any linearization.
NextReads == l <= Len(Trace) /\ E.ev \in {"BeginResp", "CommitResp", "Crash", "Close"}
Silent == /\ NextReads
          /\ UNCHANGED l
          /\ \E x \in Workers : LPCommit(x)

TNext == \/ TReset \/ TBeginInv \/ TBeginResp \/ TGet \/ TPut \/ TDiscard
         \/ TCommitInv \/ TCommitResp \/ TClosedCall \/ TClose \/ TCrash \/ TOpen
         \/ Silent

TSpec == TInit /\ [][TNext]_tvars

\* high-water mark of the position (silent steps make the diameter useless); reaching the
\* end of the trace stops the search at once
ASSUME TLCSet(1, 0)
HighWater == /\ TLCSet(1, IF TLCGet(1) < l THEN l ELSE TLCGet(1))
             /\ (l > Len(Trace)) => /\ PrintT(<<"HIGHWATER", l, Len(Trace)>>)
                                    /\ TLCSet("exit", TRUE)
Accepted  == /\ PrintT(<<"HIGHWATER", TLCGet(1), Len(Trace)>>)
             /\ TLCGet(1) = Len(Trace) + 1
=============================================================================
