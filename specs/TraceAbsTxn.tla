----------------------------- MODULE TraceAbsTxn -----------------------------
(***************************************************************************)
(* Trace validation of recorded API-level executions of the real engine    *)
(* against the contract AbsTxn.  The trace is a newline-delimited JSON     *)
(* file (env TRACE) with one object per API event, in the order of a       *)
(* process-wide atomic sequence number.  The linearization points LPBegin  *)
(* and LPCommit are not observable: they are silent steps TLC searches     *)
(* over.  Many traces are validated by one TLC run: a "Reset" event starts *)
(* a fresh store.                                                          *)
(*                                                                         *)
(* Acceptance: the high-water mark of the trace position (TLC register 1)  *)
(* reaches Len(Trace)+1.  Run with -workers 1, CHECK_DEADLOCK FALSE and    *)
(* -Dtlc2.tool.queue.IStateQueue=StateDeque.                               *)
(***************************************************************************)
EXTENDS AbsTxn, TLC, Json, IOUtils

Trace == ndJsonDeserialize(IOEnv.TRACE)

VARIABLE l                         \* next trace position
tvars == <<commits, ws, up, l>>

E == Trace[l]
IsEv(name) == l <= Len(Trace) /\ E.ev = name /\ l' = l + 1

TInit == AInit /\ l = 1

TReset      == IsEv("Reset") /\ commits' = <<>> /\ ws' = [x \in Workers |-> Idle] /\ up' = TRUE
TBeginInv   == IsEv("BeginInv")   /\ BeginInv(E.w, E.upd)
TBeginResp  == IsEv("BeginResp")  /\ BeginResp(E.w)
TGet        == IsEv("Get")        /\ Get(E.w, E.k, E.v)
TPut        == IsEv("Put")        /\ (IF E.k = 0 THEN PutEmptyKey(E.w, E.res) ELSE Put(E.w, E.k, E.v, E.res))
TDiscard    == IsEv("Discard")    /\ Discard(E.w)
TCommitInv  == IsEv("CommitInv")  /\ CommitInv(E.w)
TCommitResp == IsEv("CommitResp") /\ CommitResp(E.w, E.res)
TClosedCall == IsEv("ClosedCall") /\ ClosedCall(E.w, E.res)
TClose      == IsEv("Close")      /\ Close
TCrash      == IsEv("Crash")      /\ Crash
TOpen       == IsEv("Open")       /\ Open

Silent == /\ l <= Len(Trace)
          /\ UNCHANGED l
          /\ \E x \in Workers : LPBegin(x) \/ LPCommit(x)

TNext == \/ TReset \/ TBeginInv \/ TBeginResp \/ TGet \/ TPut \/ TDiscard
         \/ TCommitInv \/ TCommitResp \/ TClosedCall \/ TClose \/ TCrash \/ TOpen
         \/ Silent

TSpec == TInit /\ [][TNext]_tvars

\* high-water mark of the position (silent steps make the diameter useless)
ASSUME TLCSet(1, 0)
HighWater == TLCSet(1, IF TLCGet(1) < l THEN l ELSE TLCGet(1))
Accepted  == /\ PrintT(<<"HIGHWATER", TLCGet(1), Len(Trace)>>)
             /\ TLCGet(1) = Len(Trace) + 1
=============================================================================
