------------------------------- MODULE Skiplist -------------------------------
(***************************************************************************)
(* IMPLEMENTATION-SHAPED specification of pkg/skiplist: explicit towers.   *)
(* A node is identified by its versioned key <<k, ts>> (keys are unique in *)
(* the list); next[n][i] is the successor of n at level i (Nil = 0); the    *)
(* head is a node of full height.  Set walks down from the top level       *)
(* collecting update[i] as the code does, replaces value and tombstone of   *)
(* an existing key, and otherwise links a node of a height chosen by       *)
(* randomLevel - here: nondeterministically in 1..MaxLevel.                *)
(*                                                                         *)
(* Contract (C17): the list behaves as a sorted map ordered by key         *)
(* ascending, version descending (types.CompareKeys): ghost `m`.           *)
(*                                                                         *)
(* `path` records how the state was reached; the model hides it with a     *)
(* VIEW, so TLC keeps one path per distinct structure and every transition *)
(* it generates is exported (Export) as one replay for the real code.      *)
(***************************************************************************)
EXTENDS Integers, Sequences, FiniteSets, TLC, Json

CONSTANTS K, T, MaxLevel, MaxOps,
          BugDeleteLevel1Only,\* Delete unlinks the node at the lowest level only: upper levels keep pointing to it
          BugNoReplaceTomb,   \* setting an existing key replaces the value but not the tombstone flag
          BugRawCompare       \* keys compared as strings "k@ts" (ts ascending) instead of CompareKeys

Nodes == (1..K) \X (1..T)
HD    == <<0, 0>>
Nil   == <<-1, -1>>
Vals  == {1, 2}

VARIABLES next,      \* [Nodes \cup {HD} -> [1..MaxLevel -> Nodes \cup {Nil}]]
          present,   \* set of nodes in the list
          height,    \* [Nodes -> 0..MaxLevel]
          val, tomb, \* [Nodes -> Vals], [Nodes -> BOOLEAN]
          level,     \* s.level
          m,         \* ghost: the sorted map, [present -> [v, tomb]] (as a set of records)
          path       \* history: sequence of operations that led here

svars == <<next, present, height, val, tomb, level>>
vars  == <<svars, m, path>>

\* types.CompareKeys: key ascending, version descending
Less(a, b) == IF BugRawCompare THEN a[1] < b[1] \/ (a[1] = b[1] /\ a[2] < b[2])
              ELSE a[1] < b[1] \/ (a[1] = b[1] /\ a[2] > b[2])
TrueLess(a, b) == a[1] < b[1] \/ (a[1] = b[1] /\ a[2] > b[2])

Init == /\ next = [n \in Nodes \cup {HD} |-> [i \in 1..MaxLevel |-> Nil]]
        /\ present = {} /\ height = [n \in Nodes |-> 0]
        /\ val = [n \in Nodes |-> 1] /\ tomb = [n \in Nodes |-> FALSE]
        /\ level = 1 /\ m = {} /\ path = <<>>

\* ------------------------------------------------------------------ the walk of the code
RECURSIVE Fwd(_, _, _)
Fwd(cur, i, tgt) == IF next[cur][i] # Nil /\ Less(next[cur][i], tgt) THEN Fwd(next[cur][i], i, tgt) ELSE cur
RECURSIVE Upd(_, _, _)
\* update vector: Upd(cur, i, tgt)[j] for j <= i, walking down from level i
Upd(cur, i, tgt) == LET c == Fwd(cur, i, tgt) IN
                    IF i = 1 THEN (1 :> c) ELSE (i :> c) @@ Upd(c, i - 1, tgt)
Update(tgt) == Upd(HD, MaxLevel, tgt)
Pred(tgt)   == Update(tgt)[1]
Succ(tgt)   == next[Pred(tgt)][1]          \* first node >= tgt at level 1 (lower bound)

\* ------------------------------------------------------------------ operations
Set(n, v, tb, h) ==
    /\ Len(path) < MaxOps
    /\ LET u == Update(n) IN
       IF Succ(n) = n
       THEN /\ val' = [val EXCEPT ![n] = v]
            /\ tomb' = IF BugNoReplaceTomb THEN tomb ELSE [tomb EXCEPT ![n] = tb]
            /\ UNCHANGED <<next, present, height, level>>
       ELSE LET uu == u IN
            /\ next' = [x \in Nodes \cup {HD} |->
                         [i \in 1..MaxLevel |->
                            IF x = n /\ i <= h THEN (IF uu[i] = Nil THEN Nil ELSE next[uu[i]][i])
                            ELSE IF i <= h /\ uu[i] = x THEN n
                            ELSE next[x][i]]]
            /\ present' = present \cup {n}
            /\ height' = [height EXCEPT ![n] = h]
            /\ val' = [val EXCEPT ![n] = v] /\ tomb' = [tomb EXCEPT ![n] = tb]
            /\ level' = IF h > level THEN h ELSE level
    /\ m' = {r \in m : r.n # n} \cup {[n |-> n, v |-> v, tomb |-> tb]}
    /\ path' = Append(path, [op |-> "set", k |-> n[1], ts |-> n[2], v |-> v, tomb |-> tb, h |-> h])

Delete(n) ==
    /\ Len(path) < MaxOps
    /\ LET u == Update(n) IN
       IF Succ(n) = n
       THEN /\ next' = [x \in Nodes \cup {HD} |->
                          [i \in 1..MaxLevel |->
                             IF i <= (IF BugDeleteLevel1Only THEN 1 ELSE level) /\ u[i] = x /\ next[x][i] = n /\ (\A j \in 1..i : next[u[j]][j] = n)
                             THEN next[n][i] ELSE next[x][i]]]
            /\ present' = present \ {n}
            /\ height' = [height EXCEPT ![n] = 0]
            /\ UNCHANGED <<val, tomb>>
            /\ level' = level        \* the code lowers s.level when the top levels empty; irrelevant for reads
       ELSE UNCHANGED svars
    /\ m' = {r \in m : r.n # n}
    /\ path' = Append(path, [op |-> "del", k |-> n[1], ts |-> n[2], v |-> 0, tomb |-> FALSE, h |-> 0])

Next == \E n \in Nodes : \/ Delete(n)
                         \/ \E v \in Vals, tb \in BOOLEAN, h \in 1..MaxLevel : Set(n, v, tb, h)
Spec == Init /\ [][Next]_vars

\* ------------------------------------------------------------------ reads, as the code computes them
RECURSIVE Chain(_, _)
Chain(cur, i) == IF next[cur][i] = Nil THEN <<>> ELSE <<next[cur][i]>> \o Chain(next[cur][i], i)
All == Chain(HD, 1)
GetR(tgt) == IF Succ(tgt) = tgt THEN [found |-> TRUE, v |-> val[tgt], tomb |-> tomb[tgt]] ELSE [found |-> FALSE, v |-> 0, tomb |-> FALSE]
LowerBoundR(tgt) == Succ(tgt)

\* ------------------------------------------------------------------ the contract: a sorted map
MKeys == {r.n : r \in m}
RECURSIVE SortedSeq(_)
SortedSeq(S) == IF S = {} THEN <<>>
                ELSE LET mn == CHOOSE x \in S : \A y \in S : x = y \/ TrueLess(x, y) IN <<mn>> \o SortedSeq(S \ {mn})
MapLowerBound(tgt) == LET S == {x \in MKeys : ~TrueLess(x, tgt)} IN
                      IF S = {} THEN Nil ELSE CHOOSE x \in S : \A y \in S : x = y \/ TrueLess(x, y)
Targets == (1..K) \X (0..(T + 1))

\* C17
AllIsSortedMap   == All = SortedSeq(MKeys)
ValuesMatch      == \A r \in m : val[r.n] = r.v /\ tomb[r.n] = r.tomb
GetMatches       == \A n \in Nodes : GetR(n).found = (n \in MKeys)
LowerBoundMatches == \A t \in Targets : LowerBoundR(t) = MapLowerBound(t)
\* every level is a subsequence of the level below
RECURSIVE IsSubseq(_, _)
IsSubseq(a, b) == IF a = <<>> THEN TRUE ELSE IF b = <<>> THEN FALSE
                  ELSE IF Head(a) = Head(b) THEN IsSubseq(Tail(a), Tail(b)) ELSE IsSubseq(a, Tail(b))
Towers == \A i \in 2..MaxLevel : IsSubseq(Chain(HD, i), Chain(HD, i - 1))

\* ------------------------------------------------------------------ export of every transition as a replay
View == <<svars, m>>      \* everything but the history
TowersJson == [i \in 1..MaxLevel |-> [j \in 1..Len(Chain(HD, i)) |->
                 LET n == Chain(HD, i)[j] IN [k |-> n[1], ts |-> n[2], v |-> val[n], tomb |-> tomb[n]]]]
Export == IF Len(path) > 0
          THEN PrintT(<<"REPLAY", ToJson([path |-> path, towers |-> TowersJson])>>)
          ELSE TRUE
=============================================================================
