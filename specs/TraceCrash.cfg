SPECIFICATION TSpec
CONSTANTS
  Keys = {1, 2, 3, 4, 5, 6}
  MaxTxn = 1000000
  MemThreshold = 0
  QueueLen = 1000
  L0Target = 0
  MaxCrashes = 0
  MaxCloses = 1000000
  TornTails = FALSE
  BugDeleteInputsFirst = FALSE
  BugNoSyncTable = FALSE
  BugCreateInPlace = FALSE
  BugWalSkipped = FALSE
  BugTornTailFatal = FALSE
  BugPerEntryWal = FALSE
  BugAckBeforeSync = FALSE
  BugDelWalFirst = FALSE
  BugCloseFlushesFirst = FALSE
  BugExitWithQueue = FALSE
INVARIANTS OpenOk Durable Fresh AckedSynced
CONSTRAINT HighWater
POSTCONDITION Accepted
CHECK_DEADLOCK FALSE
