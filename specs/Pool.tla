--------------------------------- MODULE Pool ---------------------------------
(***************************************************************************)
(* pkg/bufferpool and its users (C11, second sentence): a process-wide pool  *)
(* of buffers; an encoder Gets a buffer, fills it, and returns a result to   *)
(* its caller.  ResultStable: the bytes an encoder returned do not change    *)
(* afterwards - no live result aliases a buffer that is in the pool or that  *)
(* somebody else is writing.                                                 *)
(*   BugReturnAlias   the encoder returns buf.Bytes() and Puts the buffer    *)
(*                    back (defer): the pinned behaviour, defect D10         *)
(***************************************************************************)
EXTENDS Integers, FiniteSets

CONSTANTS Procs, Bufs, BugReturnAlias

VARIABLES free,      \* buffers in the pool
          holds,     \* proc -> buffer it is writing (0 = none)
          content,   \* buffer -> version counter of its bytes
          results    \* set of [owner, buf (0 = private copy), ver]: live results

vars == <<free, holds, content, results>>
Init == free = Bufs /\ holds = [p \in Procs |-> 0] /\ content = [b \in Bufs |-> 0] /\ results = {}

Get(p) == /\ holds[p] = 0 /\ free # {}
          /\ \E b \in free : free' = free \ {b} /\ holds' = [holds EXCEPT ![p] = b]
                             /\ content' = [content EXCEPT ![b] = @ + 1]      \* Reset + new bytes
          /\ UNCHANGED results
Finish(p) == /\ holds[p] # 0
             /\ LET b == holds[p] IN
                /\ results' = results \cup {[owner |-> p, buf |-> IF BugReturnAlias THEN b ELSE 0, ver |-> content[b]]}
                /\ free' = free \cup {b}                                      \* deferred Put
                /\ holds' = [holds EXCEPT ![p] = 0]
             /\ UNCHANGED content
Drop(p) == /\ \E r \in results : r.owner = p /\ results' = results \ {r}
           /\ UNCHANGED <<free, holds, content>>
Next == \E p \in Procs : Get(p) \/ Finish(p) \/ Drop(p)
Spec == Init /\ [][Next]_vars
Bound == \A b \in Bufs : content[b] <= 3

ResultStable == \A r \in results : r.buf # 0 => content[r.buf] = r.ver
=============================================================================
