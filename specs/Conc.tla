--------------------------------- MODULE Conc ---------------------------------
(***************************************************************************)
(* IMPLEMENTATION-SHAPED specification of the blocking structure of one DB   *)
(* handle (C15, and the lock discipline part of C12): the locks, the flush   *)
(* queue, the Close handshake and the commit watermark that Begin waits for. *)
(* Data is abstracted away; what remains is who can block on whom.           *)
(*                                                                         *)
(*   oracle.writeLock   held by a committer from validation to doneCommit    *)
(*   db.mu (RW)         readers: search; writers: rotation, flusher removing *)
(*                      an immutable, Close pushing the last memtable        *)
(*   levelManager.mu    lookups in tables, flush, compaction                 *)
(*   flushC             channel of capacity QueueLen (0 = unbuffered)        *)
(*   closeC / closed    Close handshake with db.run                          *)
(*   commitMark         Begin waits until every commit <= readTs is done     *)
(*                                                                         *)
(* Client:  Begin (readTs, wait for commit mark) -> Get* -> Commit | Discard  *)
(*   Commit: writeLock -> decide -> apply [-> db.mu: rotate -> flushC send]   *)
(*           -> doneCommit -> unlock                                         *)
(* Flusher: select{flushC, closeC} -> lm.mu: flush -> lm.mu: compact ->      *)
(*          db.mu: remove immutable -> loop / exit -> close(closed)          *)
(* Close:   db.mu: push last memtable -> flushC send -> closeC send -> wait  *)
(*                                                                         *)
(* Every client performs MaxTxn transactions; Close is called when all       *)
(* clients are finished (C15 reads "Close while calls are in flight" as      *)
(* outside the property).                                                    *)
(***************************************************************************)
EXTENDS Integers, Sequences, FiniteSets

CONSTANTS Clients, MaxTxn, QueueLen, RotateEvery,
          BugSendUnderDbMu,     \* the rotation sends on flushC while still holding db.mu
          BugLockOrder,         \* the flusher takes db.mu while still holding levelManager.mu (readers nest the other way)
          BugNoDoneOnConflict,  \* a path out of Commit forgets doneCommit: the commit mark never catches up
          BugExitWithQueue      \* db.run leaves on the close signal although memtables are still queued

VARIABLES wLock,      \* 0 or client holding oracle.writeLock
          dbW, dbR,   \* db.mu: writer (0 = nobody, a client, -1 = flusher) and set of readers
          lm,         \* levelManager.mu holder (0 = nobody, a client, -1 = flusher)
          q,          \* number of memtables in flushC
          imm,        \* number of immutables
          closeSig,   \* Close is offering on closeC
          flClosed,   \* the flusher has seen the close signal
          cl,         \* per client: [pc, n, rts, cts]
          fl,         \* flusher pc
          cs,         \* Close pc
          nextTs, doneTs,    \* commit timestamps handed out / set of finished commit ts
          sinceRot    \* commits since the last rotation

vars == <<wLock, dbW, dbR, lm, q, imm, closeSig, flClosed, cl, fl, cs, nextTs, doneTs, sinceRot>>

Init == /\ wLock = 0 /\ dbW = 0 /\ dbR = {} /\ lm = 0 /\ q = 0 /\ imm = 0
        /\ closeSig = FALSE /\ flClosed = FALSE
        /\ cl = [c \in Clients |-> [pc |-> "idle", n |-> 0, rts |-> 0, cts |-> 0]]
        /\ fl = "select" /\ cs = "idle"
        /\ nextTs = 1 /\ doneTs = {} /\ sinceRot = 0

\* commitMark.DoneUntil: the largest t such that every commit <= t is done
CommitMark == IF \E t \in 1..(nextTs - 1) : t \notin doneTs
              THEN (CHOOSE t \in 1..(nextTs - 1) : t \notin doneTs /\ \A u \in 1..(t - 1) : u \in doneTs) - 1
              ELSE nextTs - 1

Set(c, pc) == cl' = [cl EXCEPT ![c].pc = pc]
U(xs) == UNCHANGED xs

\* ------------------------------------------------------------------ clients
BeginTs(c) == /\ cl[c].pc = "idle" /\ cl[c].n < MaxTxn /\ cs = "idle"
              /\ cl' = [cl EXCEPT ![c] = [pc |-> "waitmark", n |-> cl[c].n + 1, rts |-> nextTs - 1, cts |-> 0]]
              /\ U(<<wLock, dbW, dbR, lm, q, imm, closeSig, flClosed, fl, cs, nextTs, doneTs, sinceRot>>)
BeginReady(c) == /\ cl[c].pc = "waitmark" /\ CommitMark >= cl[c].rts
                 /\ Set(c, "active")
                 /\ U(<<wLock, dbW, dbR, lm, q, imm, closeSig, flClosed, fl, cs, nextTs, doneTs, sinceRot>>)
\* Get: db.mu.RLock, then levelManager.mu, then release both
GetRLock(c) == /\ cl[c].pc = "active" /\ dbW = 0 /\ dbR' = dbR \cup {c} /\ Set(c, "get-lm")
               /\ U(<<wLock, dbW, lm, q, imm, closeSig, flClosed, fl, cs, nextTs, doneTs, sinceRot>>)
GetLm(c) == /\ cl[c].pc = "get-lm" /\ lm = 0 /\ lm' = c /\ Set(c, "get-done")
            /\ U(<<wLock, dbW, dbR, q, imm, closeSig, flClosed, fl, cs, nextTs, doneTs, sinceRot>>)
GetDone(c) == /\ cl[c].pc = "get-done" /\ lm' = 0 /\ dbR' = dbR \ {c} /\ Set(c, "active2")
              /\ U(<<wLock, dbW, q, imm, closeSig, flClosed, fl, cs, nextTs, doneTs, sinceRot>>)
Discard(c) == /\ cl[c].pc \in {"active", "active2"} /\ Set(c, "idle")
              /\ U(<<wLock, dbW, dbR, lm, q, imm, closeSig, flClosed, fl, cs, nextTs, doneTs, sinceRot>>)
CommitLock(c) == /\ cl[c].pc \in {"active", "active2"} /\ wLock = 0 /\ wLock' = c /\ Set(c, "decide")
                 /\ U(<<dbW, dbR, lm, q, imm, closeSig, flClosed, fl, cs, nextTs, doneTs, sinceRot>>)
\* newCommitTs: conflict (returns, nothing to wait for) or a commit timestamp
Decide(c) == /\ cl[c].pc = "decide"
             /\ \/ /\ wLock' = 0 /\ Set(c, "idle")                         \* ErrConflictTxn
                   /\ U(<<nextTs, doneTs, sinceRot>>)
                \/ /\ cl' = [cl EXCEPT ![c].pc = "apply", ![c].cts = nextTs]
                   /\ nextTs' = nextTs + 1 /\ sinceRot' = sinceRot + 1
                   /\ U(<<wLock, doneTs>>)
             /\ U(<<dbW, dbR, lm, q, imm, closeSig, flClosed, fl, cs>>)
\* rawset: memtable.set, then rotation if the threshold is reached
Apply(c) == /\ cl[c].pc = "apply"
            /\ Set(c, IF sinceRot >= RotateEvery THEN "rot-lock" ELSE "donecommit")
            /\ U(<<wLock, dbW, dbR, lm, q, imm, closeSig, flClosed, fl, cs, nextTs, doneTs, sinceRot>>)
RotLock(c) == /\ cl[c].pc = "rot-lock" /\ dbW = 0 /\ dbR = {} /\ dbW' = c
              /\ imm' = imm + 1 /\ sinceRot' = 0 /\ Set(c, IF BugSendUnderDbMu THEN "enq" ELSE "rot-unlock")
              /\ U(<<wLock, dbR, lm, q, closeSig, flClosed, fl, cs, nextTs, doneTs>>)
RotUnlock(c) == /\ cl[c].pc = "rot-unlock" /\ dbW' = 0 /\ Set(c, IF BugSendUnderDbMu THEN "donecommit" ELSE "enq")
                /\ U(<<wLock, dbR, lm, q, imm, closeSig, flClosed, fl, cs, nextTs, doneTs, sinceRot>>)
\* flushC <- imt: needs a free slot, or (unbuffered) the flusher in its select
CanSend == q < QueueLen \/ (QueueLen = 0 /\ fl = "select" /\ q = 0)
Enq(c) == /\ cl[c].pc = "enq" /\ CanSend /\ q' = q + 1
          /\ Set(c, IF BugSendUnderDbMu THEN "rot-unlock" ELSE "donecommit")
          /\ U(<<wLock, dbW, dbR, lm, imm, closeSig, flClosed, fl, cs, nextTs, doneTs, sinceRot>>)
DoneCommit(c) == /\ cl[c].pc = "donecommit"
                 /\ doneTs' = doneTs \cup {cl[c].cts} /\ wLock' = 0 /\ Set(c, "idle")
                 /\ U(<<dbW, dbR, lm, q, imm, closeSig, flClosed, fl, cs, nextTs, sinceRot>>)
\* the deviation: leave Commit after the timestamp was taken without doneCommit
LeaveWithoutDone(c) == /\ BugNoDoneOnConflict /\ cl[c].pc = "donecommit"
                       /\ wLock' = 0 /\ Set(c, "idle")
                       /\ U(<<dbW, dbR, lm, q, imm, closeSig, flClosed, fl, cs, nextTs, doneTs, sinceRot>>)

\* ------------------------------------------------------------------ flusher (db.run)
FlTake == /\ fl = "select" /\ q > 0 /\ q' = q - 1 /\ fl' = "flush-lock"
          /\ U(<<wLock, dbW, dbR, lm, imm, closeSig, flClosed, cl, cs, nextTs, doneTs, sinceRot>>)
FlCloseSig == /\ fl = "select" /\ closeSig /\ closeSig' = FALSE /\ flClosed' = TRUE
              /\ fl' = IF q > 0 /\ ~BugExitWithQueue THEN "select" ELSE "exit"
              /\ U(<<wLock, dbW, dbR, lm, q, imm, cl, cs, nextTs, doneTs, sinceRot>>)
FlFlushLock == /\ fl = "flush-lock" /\ lm = 0 /\ lm' = -1 /\ fl' = "flush-unlock"
               /\ U(<<wLock, dbW, dbR, q, imm, closeSig, flClosed, cl, cs, nextTs, doneTs, sinceRot>>)
FlFlushUnlock == /\ fl = "flush-unlock" /\ lm' = (IF BugLockOrder THEN lm ELSE 0) /\ fl' = "rm-lock"
                 /\ U(<<wLock, dbW, dbR, q, imm, closeSig, flClosed, cl, cs, nextTs, doneTs, sinceRot>>)
FlRmLock == /\ fl = "rm-lock" /\ dbW = 0 /\ dbR = {} /\ dbW' = -1 /\ fl' = "rm-unlock"
            /\ U(<<wLock, dbR, lm, q, imm, closeSig, flClosed, cl, cs, nextTs, doneTs, sinceRot>>)
FlRmUnlock == /\ fl = "rm-unlock" /\ dbW' = 0 /\ imm' = imm - 1 /\ lm' = (IF BugLockOrder THEN 0 ELSE lm)
              /\ fl' = IF flClosed /\ q = 0 THEN "exit" ELSE "select"
              /\ U(<<wLock, dbR, q, closeSig, flClosed, cl, cs, nextTs, doneTs, sinceRot>>)
FlExit == /\ fl = "exit" /\ fl' = "stopped"
          /\ U(<<wLock, dbW, dbR, lm, q, imm, closeSig, flClosed, cl, cs, nextTs, doneTs, sinceRot>>)

\* ------------------------------------------------------------------ Close
AllDone == \A c \in Clients : cl[c].pc = "idle" /\ cl[c].n = MaxTxn
ClStart == /\ cs = "idle" /\ AllDone /\ cs' = IF sinceRot > 0 THEN "push" ELSE "signal"
           /\ U(<<wLock, dbW, dbR, lm, q, imm, closeSig, flClosed, cl, fl, nextTs, doneTs, sinceRot>>)
ClPush == /\ cs = "push" /\ dbW = 0 /\ dbR = {} /\ imm' = imm + 1 /\ cs' = "enq"
          /\ U(<<wLock, dbW, dbR, lm, q, closeSig, flClosed, cl, fl, nextTs, doneTs, sinceRot>>)
ClEnq == /\ cs = "enq" /\ CanSend /\ q' = q + 1 /\ cs' = "signal"
         /\ U(<<wLock, dbW, dbR, lm, imm, closeSig, flClosed, cl, fl, nextTs, doneTs, sinceRot>>)
ClSignal == /\ cs = "signal" /\ closeSig' = TRUE /\ cs' = "signalled"
            /\ U(<<wLock, dbW, dbR, lm, q, imm, flClosed, cl, fl, nextTs, doneTs, sinceRot>>)
ClWait == /\ cs = "signalled" /\ ~closeSig /\ cs' = "wait"          \* the unbuffered send completed
          /\ U(<<wLock, dbW, dbR, lm, q, imm, closeSig, flClosed, cl, fl, nextTs, doneTs, sinceRot>>)
ClReturn == /\ cs = "wait" /\ fl = "stopped" /\ cs' = "closed"
            /\ U(<<wLock, dbW, dbR, lm, q, imm, closeSig, flClosed, cl, fl, nextTs, doneTs, sinceRot>>)

ClientStep(c) == BeginTs(c) \/ BeginReady(c) \/ GetRLock(c) \/ GetLm(c) \/ GetDone(c) \/ Discard(c) \/ CommitLock(c)
                 \/ Decide(c) \/ Apply(c) \/ RotLock(c) \/ RotUnlock(c) \/ Enq(c) \/ DoneCommit(c) \/ LeaveWithoutDone(c)
FlusherStep == FlTake \/ FlCloseSig \/ FlFlushLock \/ FlFlushUnlock \/ FlRmLock \/ FlRmUnlock \/ FlExit
CloseStep == ClStart \/ ClPush \/ ClEnq \/ ClSignal \/ ClWait \/ ClReturn
Next == (\E c \in Clients : ClientStep(c)) \/ FlusherStep \/ CloseStep
Spec == Init /\ [][Next]_vars
FairSpec == Spec /\ WF_vars(FlusherStep) /\ WF_vars(CloseStep) /\ \A c \in Clients : WF_vars(ClientStep(c))

\* ------------------------------------------------------------------ properties (C15)
\* the only state without a successor is: everything finished and closed (checked by TLC's deadlock
\* detection with Terminated as the allowed terminal state)
Terminated == cs = "closed"
NoDeadlock == (~ENABLED Next) => Terminated
\* after Close returned the flusher has stopped and nothing is left queued or unflushed
ClosedMeansStopped == cs = "closed" => fl = "stopped" /\ q = 0 /\ imm = 0
\* every call returns
EveryCallReturns == /\ \A c \in Clients : [](cl[c].pc # "idle" => <>(cl[c].pc = "idle"))
                    /\ [](cs # "idle" => <>(cs = "closed"))
\* lock discipline: db.mu is never write-held by two, never write-held while read-held
DbMuExclusive == dbW # 0 => dbR = {}
=============================================================================
