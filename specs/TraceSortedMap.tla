---------------------------- MODULE TraceSortedMap ----------------------------
(***************************************************************************)
(* CONTRACT of pkg/skiplist (C17) as a trace validator: a sorted map of     *)
(* versioned keys ordered by key ascending, version descending.  Events     *)
(* (ndjson, env TRACE) carry the arguments and the results of the real      *)
(* calls, so validation is linear:                                          *)
(*   Reset | Set k ts v tomb | Del k ts found | Get k ts found v tomb       *)
(*   LB k ts found rk rts rv rtomb | All n sum | Scan k ts k2 ts2 n sum     *)
(* All/Scan results are compared through their length and a position-       *)
(* weighted checksum of (k, ts, v, tomb) computed the same way by harness    *)
(* and spec (lists can be long; the JSON stays small).                       *)
(***************************************************************************)
EXTENDS Integers, Sequences, FiniteSets, TLC, Json, IOUtils

Trace == ndJsonDeserialize(IOEnv.TRACE)
VARIABLES mp, l
vars == <<mp, l>>
E == Trace[l]
IsEv(name) == l <= Len(Trace) /\ E.ev = name /\ l' = l + 1

Less(a, b) == a.k < b.k \/ (a.k = b.k /\ a.ts > b.ts)
Key(k, ts) == [k |-> k, ts |-> ts]
RECURSIVE SortedSeq(_)
SortedSeq(S) == IF S = {} THEN <<>>
                ELSE LET mn == CHOOSE x \in S : \A y \in S : x = y \/ Less(x, y) IN <<mn>> \o SortedSeq(S \ {mn})
RECURSIVE Sum(_, _)
Sum(s, i) == IF i > Len(s) THEN 0
             ELSE (i * (s[i].k * 1000 + s[i].ts * 10 + s[i].v * 3 + (IF s[i].tomb THEN 1 ELSE 0)) + Sum(s, i + 1)) % 1000003
Has(k, ts) == \E r \in mp : r.k = k /\ r.ts = ts
Rec(k, ts) == CHOOSE r \in mp : r.k = k /\ r.ts = ts
GE(k, ts) == {r \in mp : ~Less(r, Key(k, ts))}
Min(S) == CHOOSE x \in S : \A y \in S : x = y \/ Less(x, y)

Init == mp = {} /\ l = 1
TReset == IsEv("Reset") /\ mp' = {}
TSet == IsEv("Set") /\ mp' = {r \in mp : ~(r.k = E.k /\ r.ts = E.ts)} \cup {[k |-> E.k, ts |-> E.ts, v |-> E.v, tomb |-> E.tomb]}
TDel == IsEv("Del") /\ E.found = Has(E.k, E.ts) /\ mp' = {r \in mp : ~(r.k = E.k /\ r.ts = E.ts)}
TGet == /\ IsEv("Get") /\ E.found = Has(E.k, E.ts)
        /\ E.found => (E.v = Rec(E.k, E.ts).v /\ E.tomb = Rec(E.k, E.ts).tomb)
        /\ UNCHANGED mp
TLB == /\ IsEv("LB") /\ E.found = (GE(E.k, E.ts) # {})
       /\ E.found => LET r == Min(GE(E.k, E.ts)) IN E.rk = r.k /\ E.rts = r.ts /\ E.rv = r.v /\ E.rtomb = r.tomb
       /\ UNCHANGED mp
TAll == /\ IsEv("All") /\ LET s == SortedSeq(mp) IN E.n = Len(s) /\ E.sum = Sum(s, 1)
        /\ UNCHANGED mp
TScan == /\ IsEv("Scan")
         /\ LET s == SortedSeq({r \in mp : ~Less(r, Key(E.k, E.ts)) /\ Less(r, Key(E.k2, E.ts2))}) IN
            E.n = Len(s) /\ E.sum = Sum(s, 1)
         /\ UNCHANGED mp
Next == TReset \/ TSet \/ TDel \/ TGet \/ TLB \/ TAll \/ TScan
TSpec == Init /\ [][Next]_vars

ASSUME TLCSet(1, 0)
HighWater == /\ TLCSet(1, IF TLCGet(1) < l THEN l ELSE TLCGet(1))
             /\ (l > Len(Trace)) => /\ PrintT(<<"HIGHWATER", l, Len(Trace)>>)
                                    /\ TLCSet("exit", TRUE)
Accepted  == /\ PrintT(<<"HIGHWATER", TLCGet(1), Len(Trace)>>)
             /\ TLCGet(1) = Len(Trace) + 1
=============================================================================
