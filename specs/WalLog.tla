------------------------------- MODULE WalLog -------------------------------
(***************************************************************************)
(* The write-ahead log as a byte stream (wal/wal.go): every record is a     *)
(* header of Hdr bytes holding the body length n, followed by n body bytes; *)
(* Write appends whole records, Read scans a file from the start.  After a  *)
(* power loss a file may end anywhere after its last fsync (C14): the       *)
(* variable `cut` is the length that survived.  The algorithm below is      *)
(* WAL.Read, one action per loop iteration; the contract (Whole) is what    *)
(* recovery relies on: Read never fails on a cut log and returns exactly    *)
(* the records that lie completely before the cut - a torn last record ends *)
(* the log, whether the cut falls inside its header or inside its body.     *)
(*                                                                         *)
(* Deviation switches (all FALSE = the code as it is):                      *)
(*   BugTornFatal     a short header / short body is an error (pinned tree, *)
(*                    defect D8)                                            *)
(*   BugCompareWhole  the body length is compared with the size of the      *)
(*                    whole file instead of with the unread rest            *)
(*   BugHeaderOnly    only a short header is recognised as a torn tail      *)
(***************************************************************************)
EXTENDS Integers, Sequences, FiniteSets

CONSTANTS Hdr, MaxBody, MaxRecs, BugTornFatal, BugCompareWhole, BugHeaderOnly

VARIABLES log,   \* Seq(body length): the records that were appended
          cut,   \* bytes that survived
          pos,   \* Read: bytes consumed
          out,   \* Read: records returned so far
          pc     \* "loop" | "done" | "error"
vars == <<log, cut, pos, out, pc>>

RECURSIVE Total(_)
Total(s) == IF s = <<>> THEN 0 ELSE Hdr + Head(s) + Total(Tail(s))
\* number of records of s that end at or before byte c
RECURSIVE Whole(_, _)
Whole(s, c) == IF s = <<>> \/ Hdr + Head(s) > c THEN 0 ELSE 1 + Whole(Tail(s), c - Hdr - Head(s))

Logs == UNION {[1..n -> 0..MaxBody] : n \in 0..MaxRecs}

Init == /\ log \in Logs
        /\ cut \in 0..Total(log)
        /\ pos = 0 /\ out = 0 /\ pc = "loop"

\* one iteration of `for reader.Len() > 0`
Step ==
    /\ pc = "loop"
    /\ LET rem == cut - pos IN
       IF rem = 0 THEN pc' = "done" /\ UNCHANGED <<pos, out>>
       ELSE IF rem < Hdr                                   \* binary.Read of the length: ErrUnexpectedEOF
       THEN pc' = (IF BugTornFatal THEN "error" ELSE "done") /\ UNCHANGED <<pos, out>>
       ELSE LET n    == log[out + 1]                       \* the header is complete: it holds the true length
                rest == rem - Hdr
                torn == IF BugHeaderOnly THEN FALSE
                        ELSE IF BugCompareWhole THEN n > cut ELSE n > rest IN
            IF torn THEN pc' = (IF BugTornFatal THEN "error" ELSE "done") /\ UNCHANGED <<pos, out>>
            ELSE IF n > rest THEN pc' = "error" /\ UNCHANGED <<pos, out>>      \* reading the body fails
            ELSE pos' = pos + Hdr + n /\ out' = out + 1 /\ pc' = "loop"
    /\ UNCHANGED <<log, cut>>

Spec == Init /\ [][Step]_vars

\* the scan stays on record boundaries of the surviving prefix
Aligned == pos <= cut /\ out <= Len(log) /\ pos = Total(SubSeq(log, 1, out))
\* C14 for one file: no error, and exactly the whole records
ReadOk == /\ pc # "error"
          /\ pc = "done" => out = Whole(log, cut)
Terminates == <>(pc \in {"done", "error"})
=============================================================================
