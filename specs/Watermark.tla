------------------------------ MODULE Watermark ------------------------------
(***************************************************************************)
(* IMPLEMENTATION-SHAPED specification of pkg/watermark: clients send      *)
(* marks on a bounded FIFO channel (Begin, Done, WaitForMark), one consumer *)
(* goroutine (`process`) takes them one at a time and maintains            *)
(* pending[ts] (deleted when the index is popped), the heap of seen        *)
(* indices (= DOMAIN pending), doneUntil and the registered waiters.       *)
(*                                                                         *)
(*   Call(g,..)  invocation of Begin/Done/WaitForMark by client g          *)
(*   WaitFast(g) WaitForMark returns at once because DoneUntil >= ts       *)
(*   Send(g)     markC <- mark (blocks while the channel is full); Begin   *)
(*               and Done return here                                      *)
(*   Take        the consumer receives the head of the channel             *)
(*   Store       w.doneUntil.Store(doneUntil)          (hook wm.process)   *)
(*   Wake        close the channels of all waiters with t <= doneUntil     *)
(*   WaitRet(g)  a woken WaitForMark returns nil                           *)
(*   Cancel(g)   the context of a parked WaitForMark ends: ctx error       *)
(*                                                                         *)
(* C13 is stated over the FIFO-linearised history (calls take effect in    *)
(* channel order; DoneUntil is a lagging view) - ghost counters procB/procD *)
(* count the marks the consumer has taken into account, open[i] counts     *)
(* Begins not yet matched by a later Done at call level.                   *)
(***************************************************************************)
EXTENDS Integers, Sequences, FiniteSets

CONSTANTS Procs, Idx, Buf, MaxCalls,
          BugKeepNegative,     \* a popped index with a negative count stays in pending (no re-push later)
          BugWakeOnlyPopped,   \* only waiters registered exactly at a popped index are woken
          BugWakeBeforeStore,  \* waiters are woken before doneUntil is stored
          BugSkipBelowMark     \* marks at or below doneUntil are ignored

VARIABLES chan,      \* Seq([kind, ts, g])  kind \in {"b","d","w"}
          pend,      \* function: subset of Idx -> Int   (the map `pending`)
          heap,      \* set of indices in the min-heap `timeStamps`
          du,        \* doneUntil as stored (what DoneUntil() returns)
          cons,      \* consumer: [pc, newdu, popped]
          waiters,   \* set of [g, ts] registered by the consumer
          cl,        \* client state: [st, kind, ts]
          ncalls,
          procB, procD, open, enqD    \* ghosts

vars == <<chan, pend, heap, du, cons, waiters, cl, ncalls, procB, procD, open, enqD>>

Zero == [i \in Idx |-> 0]
Init == /\ chan = <<>> /\ pend = <<>> /\ heap = {} /\ du = 0
        /\ cons = [pc |-> "take", newdu |-> 0, popped |-> {}]
        /\ waiters = {}
        /\ cl = [g \in Procs |-> [st |-> "idle", kind |-> "b", ts |-> 0, n |-> 0]]
        /\ ncalls = 0 /\ procB = Zero /\ procD = Zero /\ open = Zero /\ enqD = Zero

\* ------------------------------------------------------------------ clients
Call(g, kind, ts) ==
    /\ cl[g].st = "idle" /\ ncalls < MaxCalls
    /\ cl' = [cl EXCEPT ![g] = [st |-> "send", kind |-> kind, ts |-> ts, n |-> cl[g].n + 1]]
    /\ ncalls' = ncalls + 1
    /\ UNCHANGED <<chan, pend, heap, du, cons, waiters, procB, procD, open, enqD>>

\* WaitForMark first reads DoneUntil: if it is already >= ts it returns nil without sending
WaitFast(g) ==
    /\ cl[g].st = "send" /\ cl[g].kind = "w" /\ du >= cl[g].ts
    /\ cl' = [cl EXCEPT ![g].st = "woken"]
    /\ UNCHANGED <<chan, pend, heap, du, cons, waiters, ncalls, procB, procD, open, enqD>>

Send(g) ==
    /\ cl[g].st = "send" /\ Len(chan) < Buf
    /\ chan' = Append(chan, [kind |-> cl[g].kind, ts |-> cl[g].ts, g |-> g, n |-> cl[g].n])   \* n: identity of the call (its waiter channel)
    /\ cl' = [cl EXCEPT ![g].st = IF cl[g].kind = "w" THEN "parked" ELSE "idle"]
    \* the call takes effect here, in channel order: ghost bookkeeping of the call-level history
    /\ LET kind == cl[g].kind  ts == cl[g].ts IN
       /\ open' = IF kind = "b" THEN [open EXCEPT ![ts] = @ + 1]
                  ELSE IF kind = "d" /\ open[ts] > 0 THEN [open EXCEPT ![ts] = @ - 1] ELSE open
       /\ enqD' = IF kind = "d" THEN [enqD EXCEPT ![ts] = @ + 1] ELSE enqD
    /\ UNCHANGED <<pend, heap, du, cons, waiters, ncalls, procB, procD>>

WaitRet(g) ==
    /\ cl[g].st = "woken"
    /\ cl' = [cl EXCEPT ![g].st = "idle"]
    /\ UNCHANGED <<chan, pend, heap, du, cons, waiters, ncalls, procB, procD, open, enqD>>

Cancel(g) ==
    /\ cl[g].st = "parked"
    /\ cl' = [cl EXCEPT ![g].st = "idle"]
    /\ UNCHANGED <<chan, pend, heap, du, cons, waiters, ncalls, procB, procD, open, enqD>>

\* ------------------------------------------------------------------ the consumer (process)
RECURSIVE Drain(_, _, _, _)
\* pop finished minima off the heap: returns <<pending', heap', doneUntil', popped indices>>
Drain(p, h, d, pop) ==
    IF h = {} THEN <<p, h, d, pop>>
    ELSE LET m == CHOOSE i \in h : \A j \in h : i <= j
             c == IF m \in DOMAIN p THEN p[m] ELSE 0 IN
         IF c > 0 THEN <<p, h, d, pop>>
         ELSE LET p2 == IF BugKeepNegative /\ c < 0 THEN p ELSE [j \in (DOMAIN p) \ {m} |-> p[j]] IN
              Drain(p2, h \ {m}, m, pop \cup {m})

WakeSet(newdu, popped) == IF BugWakeOnlyPopped THEN {w \in waiters : w.ts \in popped}
                          ELSE {w \in waiters : w.ts <= newdu}
DoWake(S) == /\ waiters' = waiters \ S
             \* "cancelled" / "wokenc" occur in trace validation only: the context of a parked wait has ended
             \* but the call has not returned yet - its channel can still be closed, and then either result is possible
             /\ cl' = [g \in Procs |-> IF \E w \in S : w.g = g /\ w.n = cl[g].n /\ cl[g].st \in {"parked", "cancelled"}
                                       THEN [cl[g] EXCEPT !.st = IF @ = "parked" THEN "woken" ELSE "wokenc"] ELSE cl[g]]

Take ==
    /\ cons.pc = "take" /\ chan # <<>>
    /\ chan' = Tail(chan)
    /\ LET m == Head(chan) IN
       IF m.kind = "w"
       THEN /\ IF du >= m.ts
               THEN /\ cl' = [cl EXCEPT ![m.g].st = IF cl[m.g].n # m.n THEN @ ELSE IF @ = "parked" THEN "woken"
                                                     ELSE IF @ = "cancelled" THEN "wokenc" ELSE @]
                    /\ UNCHANGED waiters
               ELSE waiters' = waiters \cup {[g |-> m.g, ts |-> m.ts, n |-> m.n]} /\ UNCHANGED cl
            /\ UNCHANGED <<pend, heap, cons, procB, procD>>
       ELSE IF BugSkipBelowMark /\ m.ts <= du
       THEN /\ procB' = IF m.kind = "b" THEN [procB EXCEPT ![m.ts] = @ + 1] ELSE procB
            /\ procD' = IF m.kind = "d" THEN [procD EXCEPT ![m.ts] = @ + 1] ELSE procD
            /\ UNCHANGED <<pend, heap, cons, waiters, cl>>
       ELSE LET prev == IF m.ts \in DOMAIN pend THEN pend[m.ts] ELSE 0
                p1   == [j \in (DOMAIN pend) \cup {m.ts} |->
                           IF j = m.ts THEN prev + (IF m.kind = "d" THEN -1 ELSE 1) ELSE pend[j]]
                h1   == IF m.ts \in DOMAIN pend THEN heap ELSE heap \cup {m.ts}
                r0   == Drain(p1, h1, du, {})
                r    == <<r0[1], r0[3], r0[4]>> IN
            /\ pend' = r[1] /\ heap' = r0[2]
            /\ procB' = IF m.kind = "b" THEN [procB EXCEPT ![m.ts] = @ + 1] ELSE procB
            /\ procD' = IF m.kind = "d" THEN [procD EXCEPT ![m.ts] = @ + 1] ELSE procD
            /\ IF r[2] > du
               THEN cons' = [pc |-> IF BugWakeBeforeStore THEN "wake" ELSE "store", newdu |-> r[2], popped |-> r[3]]
               ELSE UNCHANGED cons
            /\ UNCHANGED <<waiters, cl>>
    /\ UNCHANGED <<du, ncalls, open, enqD>>

Store ==
    /\ cons.pc = "store"
    /\ du' = cons.newdu
    /\ cons' = [cons EXCEPT !.pc = IF BugWakeBeforeStore THEN "take" ELSE "wake"]
    /\ UNCHANGED <<chan, pend, heap, waiters, cl, ncalls, procB, procD, open, enqD>>

Wake ==
    /\ cons.pc = "wake"
    /\ DoWake(WakeSet(cons.newdu, cons.popped))
    /\ cons' = [cons EXCEPT !.pc = IF BugWakeBeforeStore THEN "store" ELSE "take"]
    /\ UNCHANGED <<chan, pend, heap, du, ncalls, procB, procD, open, enqD>>

Consumer == Take \/ Store \/ Wake

Next == \/ Consumer
        \/ \E g \in Procs : Send(g) \/ WaitRet(g) \/ Cancel(g)
                            \/ WaitFast(g)
                            \/ \E t \in Idx : \E k \in {"b", "d", "w"} : Call(g, k, t)

Spec == Init /\ [][Next]_vars
FairSpec == Spec /\ WF_vars(Consumer) /\ \A g \in Procs : WF_vars(Send(g)) /\ WF_vars(WaitRet(g))

\* ------------------------------------------------------------------ properties (C13)
Monotone    == [][du' >= du]_vars
\* whenever the stored mark moves, no index at or below its new position has been begun more often
\* than finished among the marks taken into account
NeverPasses == [][du' > du => \A i \in Idx : i <= du' => procB'[i] <= procD'[i]]_vars
Quiet       == chan = <<>> /\ cons.pc = "take" /\ \A g \in Procs : cl[g].st # "send"
\* once every begun index up to t has been finished (each Begin matched by a later Done), the mark
\* reaches t without further calls
CatchesUp   == \A t \in Idx : (Quiet /\ enqD[t] > 0 /\ \A i \in Idx : i <= t => open[i] = 0) => du >= t
CatchesUpLive == \A t \in Idx : [](((enqD[t] > 0 /\ \A i \in Idx : i <= t => open[i] = 0) /\ ncalls = MaxCalls) => <>(du >= t))
\* WaitForMark returns nil only when DoneUntil >= t ...
WaitSound   == \A g \in Procs : cl[g].st = "woken" => du >= cl[g].ts
\* ... and returns once that is the case: in a quiet state nobody is parked at or below the mark
WaitLive    == Quiet => \A g \in Procs : cl[g].st = "parked" => du < cl[g].ts
=============================================================================
