--------------------------------- MODULE Store ---------------------------------
(***************************************************************************)
(* IMPLEMENTATION-SHAPED specification of the storage pipeline of one DB     *)
(* handle: committer (apply, rotate, enqueue), background flusher (take,     *)
(* flush to L0, compact with version discard, remove the immutable),         *)
(* long-lived readers and the discard watermark.  One action per critical    *)
(* section / hook point of the code:                                         *)
(*                                                                         *)
(*   CmApply     memtable.set of the whole batch          hook cm.applied   *)
(*   CmRotate    under db.mu: freeze, push, new memtable  hook cm.rotated   *)
(*   CmEnqueue   flushC <- imt (blocks while full)        hook cm.enq       *)
(*   CmDone      oracle.doneCommit                        hook cm.done      *)
(*   FlTake      <-flushC                                 hook fl.take      *)
(*   FlFlush     levelManager.flushToL0 + wal delete      hook fl.flushed   *)
(*   FlCompact   checkAndCompact (L0 -> L1, discard)      hook fl.compacted *)
(*   FlRemove    under db.mu: remove the flushed memtable hook fl.removed   *)
(*   ROpen/RClose a long-lived reader takes / releases a snapshot           *)
(*   WmAdvance   readMark.DoneUntil moves (never past an open reader)       *)
(*                                                                         *)
(* DB.search as in the code: the active memtable, then the immutables        *)
(* newest first - the first source holding a version <= ts of the key wins - *)
(* then the tables (best version over all tables; Levels.tla refines that).  *)
(*                                                                         *)
(* C01/C05  ReadsCorrect: in EVERY state, for every key and every snapshot a  *)
(* transaction may hold (the open readers and the newest finished commit),   *)
(* the search returns the newest committed version at or below the snapshot. *)
(***************************************************************************)
EXTENDS Integers, Sequences, FiniteSets

CONSTANTS Keys, MaxCommits, MemThreshold, QueueLen, L0Target, MaxReaders,
          BugRemoveNewestImm,    \* D4: the flusher removes immutables.Back() instead of the one it flushed
          BugEnqueueBeforePush,  \* D4: the frozen memtable is queued before it is on the immutable list
          BugImmOldestFirst,     \* the immutables are searched oldest first
          BugDropTombstones,     \* D3: compaction drops tombstones
          BugDiscardAtNextTs,    \* the discard mark is taken from nextTs instead of the read mark
          BugMarkPassesReader    \* the read mark advances past an open reader

VARIABLES nextTs, lastDone,   \* next commit ts; newest commit whose doneCommit ran
          hist,               \* ghost: all committed versions [k, ts, tomb]
          mem,                \* versions in the active memtable
          imm,                \* Seq([id, vers]) immutables, oldest first
          q,                  \* Seq(id) flushC
          l0, l1,             \* sets of tables (a table = set of versions)
          cm,                 \* committer [pc, id]
          fl,                 \* flusher [pc, item]
          readers,            \* bag of open snapshots: set of [r, ts]
          wm,                 \* discard watermark
          nimm,               \* id generator
          lost                \* ghost: the flusher tried to remove from an empty list (panic in the code)

vars == <<nextTs, lastDone, hist, mem, imm, q, l0, l1, cm, fl, readers, wm, nimm, lost>>

None == [k |-> 0, ts |-> 0, tomb |-> FALSE]
Newest(S) == CHOOSE v \in S : \A u \in S : u.ts <= v.ts
Cands(S, k, ts) == {v \in S : v.k = k /\ v.ts <= ts}
Lookup(S, k, ts) == IF Cands(S, k, ts) = {} THEN None ELSE Newest(Cands(S, k, ts))

Init == /\ nextTs = 1 /\ lastDone = 0 /\ hist = {} /\ mem = {} /\ imm = <<>> /\ q = <<>>
        /\ l0 = {} /\ l1 = {} /\ cm = [pc |-> "idle", id |-> 0] /\ fl = [pc |-> "wait", item |-> 0]
        /\ readers = {} /\ wm = 0 /\ nimm = 0 /\ lost = FALSE

\* ------------------------------------------------------------------ DB.search
RECURSIVE ImmSearch(_, _, _)
ImmSearch(order, k, ts) ==      \* order: sequence of immutables in the order they are searched
    IF order = <<>> THEN None
    ELSE IF Cands(order[1].vers, k, ts) # {} THEN Newest(Cands(order[1].vers, k, ts)) ELSE ImmSearch(Tail(order), k, ts)
Rev(s) == [i \in 1..Len(s) |-> s[Len(s) + 1 - i]]
Tables == l0 \cup l1
TabSearch(k, ts) == Lookup(UNION Tables, k, ts)
Search(k, ts) == IF Cands(mem, k, ts) # {} THEN Newest(Cands(mem, k, ts))
                 ELSE LET i == ImmSearch(IF BugImmOldestFirst THEN imm ELSE Rev(imm), k, ts) IN
                      IF i # None THEN i ELSE TabSearch(k, ts)

\* ------------------------------------------------------------------ committer
ApplyB(batch) ==       \* memtable.set of one commit batch (all versions carry ts = nextTs)
    /\ cm.pc = "idle"
    /\ mem' = mem \cup batch /\ hist' = hist \cup batch
    /\ nextTs' = nextTs + 1
    /\ cm' = [cm EXCEPT !.pc = "applied"]
    /\ UNCHANGED <<lastDone, imm, q, l0, l1, fl, readers, wm, nimm, lost>>
CmApply ==
    /\ nextTs <= MaxCommits
    /\ \E ks \in (SUBSET Keys) \ {{}} : \E dels \in SUBSET ks :
         ApplyB({[k |-> k, ts |-> nextTs, tomb |-> (k \in dels)] : k \in ks})

Size == Cardinality({v.ts : v \in mem})      \* memtable size in commits
RotateStep ==
    /\ cm.pc = "applied"
    /\ IF BugEnqueueBeforePush
       THEN /\ (Len(q) < QueueLen \/ (QueueLen = 0 /\ fl.pc = "wait" /\ q = <<>>))
            /\ q' = Append(q, nimm + 1) /\ cm' = [pc |-> "push", id |-> nimm + 1]
            /\ UNCHANGED <<imm, mem>>
       ELSE /\ imm' = Append(imm, [id |-> nimm + 1, vers |-> mem]) /\ mem' = {}
            /\ cm' = [pc |-> "enq", id |-> nimm + 1] /\ UNCHANGED q
    /\ nimm' = nimm + 1
    /\ UNCHANGED <<nextTs, lastDone, hist, l0, l1, fl, readers, wm, lost>>
CmRotate == Size >= MemThreshold /\ RotateStep
CmPushLate ==      \* only with BugEnqueueBeforePush
    /\ cm.pc = "push"
    /\ imm' = Append(imm, [id |-> cm.id, vers |-> mem]) /\ mem' = {}
    /\ cm' = [cm EXCEPT !.pc = "done"]
    /\ UNCHANGED <<nextTs, lastDone, hist, q, l0, l1, fl, readers, wm, nimm, lost>>
CmEnqueue ==
    /\ cm.pc = "enq"
    /\ Len(q) < QueueLen \/ (QueueLen = 0 /\ fl.pc = "wait" /\ q = <<>>)
    /\ q' = Append(q, cm.id) /\ cm' = [cm EXCEPT !.pc = "done"]
    /\ UNCHANGED <<nextTs, lastDone, hist, mem, imm, l0, l1, fl, readers, wm, nimm, lost>>
DoneStep ==
    /\ cm.pc \in {"done", "applied"}
    /\ lastDone' = nextTs - 1 /\ cm' = [pc |-> "idle", id |-> 0]
    /\ UNCHANGED <<nextTs, hist, mem, imm, q, l0, l1, fl, readers, wm, nimm, lost>>
CmDone == (cm.pc = "done" \/ (cm.pc = "applied" /\ Size < MemThreshold)) /\ DoneStep

\* ------------------------------------------------------------------ flusher
ImmById(id) == CHOOSE i \in DOMAIN imm : imm[i].id = id
HasImm(id) == \E i \in DOMAIN imm : imm[i].id = id
FlTake ==
    /\ fl.pc = "wait" /\ q # <<>>
    /\ fl' = [pc |-> "flush", item |-> Head(q)] /\ q' = Tail(q)
    /\ UNCHANGED <<nextTs, lastDone, hist, mem, imm, l0, l1, cm, readers, wm, nimm, lost>>
FlFlush ==
    /\ fl.pc = "flush"
    /\ HasImm(fl.item) \/ BugEnqueueBeforePush
    /\ l0' = IF HasImm(fl.item) THEN l0 \cup {imm[ImmById(fl.item)].vers} ELSE l0 \cup {mem}   \* the frozen memtable itself
    /\ fl' = [fl EXCEPT !.pc = "compact"]
    /\ UNCHANGED <<nextTs, lastDone, hist, mem, imm, q, l1, cm, readers, wm, nimm, lost>>
\* discardStaleEntries with the mark the oracle reports at that moment
Mark == IF BugDiscardAtNextTs THEN nextTs - 1 ELSE wm
DiscardAt(S, mk) == IF mk = 0 THEN S
                    ELSE {v \in S : v.ts > mk \/ \A u \in S : (u.k = v.k /\ u.ts <= mk) => u.ts <= v.ts}
Discard(S) == DiscardAt(S, Mark)
Merge(S) == IF BugDropTombstones THEN {v \in S : ~v.tomb} ELSE S
CompactStep(doit, mk) ==
    /\ fl.pc = "compact"
    /\ IF doit
       THEN LET out == DiscardAt(Merge(UNION (l0 \cup l1)), mk) IN
            /\ l0' = {} /\ l1' = IF out = {} THEN {} ELSE {out}
       ELSE UNCHANGED <<l0, l1>>
    /\ fl' = [fl EXCEPT !.pc = "remove"]
    /\ UNCHANGED <<nextTs, lastDone, hist, mem, imm, q, cm, readers, wm, nimm, lost>>
FlCompact == CompactStep(Cardinality(l0) > L0Target, Mark)
FlRemove ==
    /\ fl.pc = "remove"
    /\ IF imm = <<>> THEN lost' = TRUE /\ UNCHANGED imm
       ELSE /\ imm' = IF BugRemoveNewestImm THEN SubSeq(imm, 1, Len(imm) - 1)
                      ELSE SelectSeq(imm, LAMBDA x : x.id # fl.item)
            /\ UNCHANGED lost
    /\ fl' = [pc |-> "wait", item |-> 0]
    /\ UNCHANGED <<nextTs, lastDone, hist, mem, q, l0, l1, cm, readers, wm, nimm>>

\* ------------------------------------------------------------------ readers and the discard watermark
ROpen == /\ Cardinality(readers) < MaxReaders
         /\ \E r \in 1..MaxReaders : (\A x \in readers : x.r # r) /\ readers' = readers \cup {[r |-> r, ts |-> lastDone]}
         /\ UNCHANGED <<nextTs, lastDone, hist, mem, imm, q, l0, l1, cm, fl, wm, nimm, lost>>
RClose == /\ \E x \in readers : readers' = readers \ {x}
          /\ UNCHANGED <<nextTs, lastDone, hist, mem, imm, q, l0, l1, cm, fl, wm, nimm, lost>>
\* readMark.DoneUntil: below the oldest open snapshot... it may stand AT an open snapshot (a reader that
\* began there when the mark already stood there), never above
WmBound == IF BugMarkPassesReader \/ readers = {} THEN lastDone
           ELSE (CHOOSE x \in readers : \A y \in readers : x.ts <= y.ts).ts
WmAdvance == /\ \E w \in (wm + 1)..WmBound : wm' = w
             /\ UNCHANGED <<nextTs, lastDone, hist, mem, imm, q, l0, l1, cm, fl, readers, nimm, lost>>

Next == CmApply \/ CmRotate \/ CmPushLate \/ CmEnqueue \/ CmDone \/ FlTake \/ FlFlush \/ FlCompact \/ FlRemove
        \/ ROpen \/ RClose \/ WmAdvance
Spec == Init /\ [][Next]_vars

\* ------------------------------------------------------------------ properties
Snapshots == {x.ts : x \in readers} \cup {lastDone}
ReadsCorrect == \A k \in Keys : \A ts \in Snapshots : Search(k, ts) = Lookup(hist, k, ts)
NoPanic == ~lost
\* nothing a permitted snapshot needs has been discarded
GcSafe == \A ts \in Snapshots : ts >= wm
=============================================================================
