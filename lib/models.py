"""TLC model-checking runs ("families") shared by the checks: the design in small bounds plus
the deviation switches as a permanent self-test (each switch must make TLC find a violation)."""
import os, re
import tlc
from common import Machinery

F, T = "FALSE", "TRUE"

TXN_SWITCHES = ["BugConflictGeq", "BugNoReadTracking", "BugNoCommitWait", "BugReadAtNext", "BugCleanupEager",
                "BugApplyBeforeDecide", "BugTrackOwnReads", "BugDoneCommitEarly"]


def txn_cfg(clients, keys, maxtxn, maxops, on=(), lag=False):
    kw = dict(CLIENTS=", ".join(map(str, range(1, clients + 1))), KEYS=", ".join(map(str, range(1, keys + 1))),
              MAXTXN=maxtxn, MAXOPS=maxops, LAG=T if lag else F)
    for s in TXN_SWITCHES:
        kw[s] = T if s in on else F
    return tlc.fill("MC_Txn.cfg.tmpl", **kw)


def expect_ok(ctx, res, what):
    if not res["ok"]:
        raise Machinery("TLC reports a violation in the repaired design (%s); the model or the design is wrong:\n%s"
                        % (what, res["out"][-3000:]))


def expect_violation(ctx, res, what):
    if res["rc"] == 0 or "is violated" not in res["out"] and "violated" not in res["out"]:
        raise Machinery("self-test failed: deviation switch %s did not produce a counterexample:\n%s"
                        % (what, res["out"][-1500:]))


TXN_BY_PROP = {
    "C05": ["BugNoCommitWait", "BugDoneCommitEarly"],
    "C06": ["BugNoReadTracking", "BugConflictGeq"],
    "C07": ["BugConflictGeq", "BugTrackOwnReads", "BugCleanupEager"],
    "C08": ["BugApplyBeforeDecide"],
    "C12": ["BugNoCommitWait"],
}
TXN_SAFETY = [s for s in TXN_SWITCHES if s != "BugReadAtNext"]   # that one is a liveness failure


def fam_txn(ctx):
    """Txn.tla: the transaction layer refines the contract (invariants SnapshotReads, Agrees,
    NoTrace, GcSafe, CommitMarkSound, CleanupSafe) in every reachable state of a bounded instance."""
    bounds = [(2, 2, 1, 3), (3, 1, 1, 2)] if ctx.quick else [(3, 2, 1, 3), (2, 2, 2, 3), (3, 1, 1, 3)]
    for bnd in bounds:
        r = ctx.model_check("Txn", txn_cfg(*bnd), timeout=3000)
        expect_ok(ctx, r, "Txn %s" % (bnd,))
    # asynchronous watermark consumers (mark queues, WmStep, WmPublish): the same invariants
    lag_bounds = [(2, 2, 1, 2)] if ctx.quick else [(2, 2, 1, 3), (3, 1, 1, 2), (2, 1, 2, 2)]
    for bnd in lag_bounds:
        r = ctx.model_check("Txn", txn_cfg(*bnd, lag=True), timeout=3000)
        expect_ok(ctx, r, "Txn with lag %s" % (bnd,))
    ctx.cov.setdefault("model_bounds", {})["Txn(clients,keys,txns/client,ops/txn)"] = bounds
    ctx.cov["model_bounds"]["Txn with asynchronous watermarks"] = lag_bounds
    sw = TXN_BY_PROP.get(ctx.id, TXN_SAFETY) if ctx.quick else TXN_SAFETY

    def one(s):
        rr = ctx.model_check("Txn", txn_cfg(2, 2, 2, 3, on=(s,)), timeout=900, expect_violation=True, workers=4)
        expect_violation(ctx, rr, s)
        m = re.findall(r"Invariant (\w+) is violated", rr["out"])
        return s, (m[0] if m else "violated")

    ctx.cov.setdefault("deviation_switches", {}).update(dict(ctx.par(one, sw, workers=4)))
    if not ctx.quick:
        def lagged(s):
            rr = ctx.model_check("Txn", txn_cfg(2, 2, 2, 3, on=(s,), lag=True), timeout=1800, expect_violation=True, workers=4)
            expect_violation(ctx, rr, s + " (lag)")
            m = re.findall(r"Invariant (\w+) is violated", rr["out"])
            return s + " (lag)", (m[0] if m else "violated")
        ctx.cov["deviation_switches"].update(dict(ctx.par(lagged, ["BugDoneCommitEarly", "BugNoCommitWait", "BugCleanupEager"], workers=3)))
        # beyond enumeration: random behaviours of a larger instance, all invariants in every state
        big = (3, 2, 2, 3)
        r = ctx.model_simulate("Txn", txn_cfg(*big, lag=True), num=40000, depth=120)
        expect_ok(ctx, r, "Txn simulation %s" % (big,))
        ctx.cov["model_bounds"]["Txn with asynchronous watermarks, simulated"] = dict(
            bounds=big, behaviours=r["traces"], states_checked=r["checked"])


CRASH_SWITCHES = ["BugDeleteInputsFirst", "BugNoSyncTable", "BugCreateInPlace", "BugWalSkipped", "BugTornTailFatal",
                  "BugPerEntryWal", "BugAckBeforeSync", "BugDelWalFirst", "BugCloseFlushesFirst", "BugExitWithQueue"]


def crash_cfg(keys=2, maxtxn=3, mem=1, queue=1, l0=1, crashes=1, closes=1, torn=False, on=(), invs=None):
    kw = dict(KEYS=", ".join(map(str, range(1, keys + 1))), MAXTXN=maxtxn, MEM=mem, QUEUE=queue, L0=l0,
              CRASHES=crashes, CLOSES=closes, TORN=T if torn else F)
    for s in CRASH_SWITCHES:
        kw[s] = T if s in on else F
    if invs is None:
        invs = ["OpenOk", "Durable", "Fresh"] + ([] if torn else ["Atomic"]) + (["AckedSynced"] if torn else [])
    kw["INVS"] = " ".join(invs)
    return tlc.fill("MC_Crash.cfg.tmpl", **kw)


# switch -> (needs torn tails?, extra config)
CRASH_SELFTEST = {
    "BugDeleteInputsFirst": (False, dict(l0=1, maxtxn=3)),
    "BugCreateInPlace": (False, dict()),
    "BugWalSkipped": (False, dict()),
    "BugPerEntryWal": (False, dict()),
    "BugDelWalFirst": (False, dict()),
    "BugCloseFlushesFirst": (False, dict(queue=2, mem=2)),
    "BugNoSyncTable": (True, dict()),
    "BugTornTailFatal": (True, dict()),
    "BugAckBeforeSync": (True, dict()),
}


def fam_crash(ctx, torn=False):
    """Crash.tla: crash at every file-system step of committer, flusher, compaction, Close and
    recovery; recovery as steps; invariants OpenOk, Durable, Fresh, Atomic (AckedSynced with torn tails)."""
    if ctx.quick:
        points = [dict(keys=2, maxtxn=3, mem=1, queue=1, l0=1, crashes=1, torn=torn),
                  dict(keys=2, maxtxn=3, mem=2, queue=2, l0=1, crashes=1, torn=torn)]
    else:
        points = [dict(keys=2, maxtxn=3, mem=1, queue=1, l0=1, crashes=2, torn=torn),
                  dict(keys=2, maxtxn=3, mem=2, queue=2, l0=1, crashes=1, torn=torn),
                  dict(keys=2, maxtxn=4, mem=2, queue=0, l0=1, crashes=1, torn=torn),
                  dict(keys=2, maxtxn=4, mem=1, queue=2, l0=2, crashes=1, torn=torn)]
    for pt in points:
        r = ctx.model_check("Crash", crash_cfg(**pt), timeout=3000)
        expect_ok(ctx, r, "Crash %s" % (pt,))
    ctx.cov.setdefault("model_bounds", {})["Crash"] = points
    if not ctx.quick:
        big = dict(keys=2, maxtxn=6, mem=2, queue=1, l0=2, crashes=2, closes=2, torn=torn)
        r = ctx.model_simulate("Crash", crash_cfg(**big), num=15000, depth=150)
        expect_ok(ctx, r, "Crash simulation %s" % (big,))
        ctx.cov["model_bounds"]["Crash, simulated"] = dict(bounds=big, behaviours=r["traces"], states_checked=r["checked"])
    sws = [s for s, (t, _) in CRASH_SELFTEST.items() if t == torn or (torn and not ctx.quick)]
    if ctx.quick:
        sws = sws[:3]

    def one(s):
        t, extra = CRASH_SELFTEST[s]
        kw = dict(keys=2, maxtxn=3, mem=1, queue=1, l0=1, crashes=1, torn=t, on=(s,))
        kw.update(extra)
        rr = ctx.model_check("Crash", crash_cfg(**kw), timeout=900, expect_violation=True, workers=4)
        expect_violation(ctx, rr, s)
        m = re.findall(r"Invariant (\w+) is violated", rr["out"])
        return s, (m[0] if m else "violated")

    ctx.cov.setdefault("deviation_switches", {}).update(dict(ctx.par(one, sws, workers=4)))


WM_SWITCHES = ["BugKeepNegative", "BugWakeOnlyPopped", "BugWakeBeforeStore", "BugSkipBelowMark"]


def wm_cfg(procs, idx, buf, maxcalls, on=(), live=False):
    kw = dict(SPEC="FairSpec" if live else "Spec", PROCS=", ".join(map(str, range(1, procs + 1))),
              IDX=", ".join(map(str, range(0, idx + 1))), BUF=buf, MAXCALLS=maxcalls,
              LIVE="CatchesUpLive" if live else "")
    for s in WM_SWITCHES:
        kw[s] = T if s in on else F
    return tlc.fill("MC_Watermark.cfg.tmpl", **kw)


def fam_wm(ctx):
    """Watermark.tla: channel, pending map, heap, consumer steps; Monotone, NeverPasses, CatchesUp,
    WaitSound, WaitLive in every reachable state of bounded instances; liveness under fairness."""
    bounds = [(2, 2, 1, 4), (1, 2, 2, 5)] if ctx.quick else [(2, 2, 2, 5), (3, 2, 1, 5), (1, 3, 2, 6)]
    for b in bounds:
        r = ctx.model_check("Watermark", wm_cfg(*b), timeout=3000)
        expect_ok(ctx, r, "Watermark %s" % (b,))
    r = ctx.model_check("Watermark", wm_cfg(2, 1, 1, 4, live=True) if ctx.quick else wm_cfg(2, 2, 2, 4, live=True),
                        timeout=3000)
    expect_ok(ctx, r, "Watermark liveness")
    ctx.cov.setdefault("model_bounds", {})["Watermark(procs,max index,buffer,calls)"] = bounds

    def one(s):
        b = (1, 2, 2, 5) if s in ("BugKeepNegative", "BugSkipBelowMark") else (2, 2, 2, 5)
        rr = ctx.model_check("Watermark", wm_cfg(*b, on=(s,)), timeout=900, expect_violation=True, workers=4)
        expect_violation(ctx, rr, s)
        m = re.findall(r"Invariant (\w+) is violated|property (\w+) is violated|Action property (\w+)", rr["out"])
        return s, ("".join(m[0]) if m else "violated")

    ctx.cov.setdefault("deviation_switches", {}).update(dict(ctx.par(one, WM_SWITCHES, workers=4)))


SKL_SWITCHES = ["BugDeleteLevel1Only", "BugNoReplaceTomb", "BugRawCompare"]


def skl_cfg(k, t, ml, mo, on=(), export=False):
    kw = dict(K=k, T=t, MAXLEVEL=ml, MAXOPS=mo, EXPORT="CONSTRAINT Export" if export else "")
    for s in SKL_SWITCHES:
        kw[s] = T if s in on else F
    return tlc.fill("MC_Skiplist.cfg.tmpl", **kw)


def fam_skl(ctx):
    """Skiplist.tla: explicit towers, every height choice; the five invariants in every state.
    Returns the list of exported replays (one per generated transition)."""
    bounds = [(2, 2, 2, 3)] if ctx.quick else [(2, 2, 2, 4), (2, 2, 3, 3)]
    replays = []
    for b in bounds:
        r = ctx.model_check("Skiplist", skl_cfg(*b, export=True), timeout=3000, workers=8)
        expect_ok(ctx, r, "Skiplist %s" % (b,))
        lines = []
        for ln in r["out"].splitlines():
            if ln.startswith('<<"REPLAY", "'):
                body = ln[len('<<"REPLAY", "'):-len('">>')]
                lines.append(body.replace('\\"', '"').replace("\\\\", "\\"))
        replays.append((b, lines))
    if not ctx.quick:
        r = ctx.model_check("Skiplist", skl_cfg(2, 3, 3, 4), timeout=3000)
        expect_ok(ctx, r, "Skiplist (2,3,3,4)")
    ctx.cov.setdefault("model_bounds", {})["Skiplist(keys,versions,maxLevel,ops)"] = bounds

    def one(s):
        rr = ctx.model_check("Skiplist", skl_cfg(2, 2, 2, 5, on=(s,)), timeout=900, expect_violation=True, workers=4)
        expect_violation(ctx, rr, s)
        m = re.findall(r"Invariant (\w+) is violated", rr["out"])
        return s, (m[0] if m else "violated")

    ctx.cov.setdefault("deviation_switches", {}).update(dict(ctx.par(one, SKL_SWITCHES, workers=3)))
    return replays


LV_SWITCHES = ["BugPointBlockSearch", "BugFirstHitWins", "BugDropTombstones", "BugDiscardAboveMark", "BugStopAtFirstLevel"]
LV_BY_PROP = {"C10": ["BugPointBlockSearch", "BugFirstHitWins", "BugStopAtFirstLevel"],
              "C09": ["BugDropTombstones", "BugDiscardAboveMark", "BugFirstHitWins"]}


def lv_cfg(k, t, mt, l0, ratio, on=(), export=False):
    kw = dict(K=k, T=t, MAXTABLES=mt, L0=l0, RATIO=ratio, EXPORT="CONSTRAINT Export" if export else "")
    for s in LV_SWITCHES:
        kw[s] = T if s in on else F
    return tlc.fill("MC_Levels.cfg.tmpl", **kw)


def fam_levels(ctx):
    """Levels.tla: every sequence of flushed tables over the version universe, every watermark, block
    size and filter answer; LookupCorrect (C10), CompactionPreserves/OnlyShadowedDisappear (C09) in every
    state of the compaction cascade. Returns the exported scenarios (JSON lines)."""
    bounds = [(2, 2, 2, 1, 1)] if ctx.quick else [(2, 2, 2, 1, 1), (2, 2, 2, 1, 2), (2, 3, 1, 1, 1), (3, 2, 1, 1, 1)]
    scen = []
    for i, b in enumerate(bounds):
        r = ctx.model_check("Levels", lv_cfg(*b, export=(i == 0 or b[2] == 1)), timeout=3400)
        expect_ok(ctx, r, "Levels %s" % (b,))
        seen = set()
        for ln in r["out"].splitlines():
            if ln.startswith('<<"SCENARIO", "'):
                body = ln[len('<<"SCENARIO", "'):-len('">>')].replace('\\"', '"')
                if body not in seen:
                    seen.add(body)
                    scen.append((b, body))
    ctx.cov.setdefault("model_bounds", {})["Levels(keys,versions,tables,L0Target,Ratio)"] = bounds
    sws = LV_BY_PROP.get(ctx.id, LV_SWITCHES) if ctx.quick else LV_SWITCHES

    def one(s):
        rr = ctx.model_check("Levels", lv_cfg(2, 2, 2, 1, 1, on=(s,)), timeout=1800, expect_violation=True, workers=4)
        expect_violation(ctx, rr, s)
        m = re.findall(r"Invariant (\w+) is violated", rr["out"])
        return s, (m[0] if m else "violated")

    ctx.cov.setdefault("deviation_switches", {}).update(dict(ctx.par(one, sws, workers=4)))
    return scen


CONC_SWITCHES = ["BugSendUnderDbMu", "BugLockOrder", "BugNoDoneOnConflict", "BugExitWithQueue"]


def conc_cfg(clients, maxtxn, queue, rot, on=(), live=False):
    kw = dict(SPEC="FairSpec" if live else "Spec", CLIENTS=", ".join(map(str, range(1, clients + 1))), MAXTXN=maxtxn,
              QUEUE=queue, ROT=rot, PROPS="PROPERTY EveryCallReturns" if live else "")
    for s in CONC_SWITCHES:
        kw[s] = T if s in on else F
    return tlc.fill("MC_Conc.cfg.tmpl", **kw)


def fam_conc(ctx):
    """Conc.tla: locks, flush queue (capacity 0..2), Close handshake, commit mark: no reachable state
    without a successor except "everything returned and closed"; every call returns under weak fairness."""
    bounds = [(2, 2, 0, 1), (2, 2, 1, 1), (2, 2, 2, 1)] if ctx.quick else \
        [(2, 2, 0, 1), (2, 2, 1, 1), (2, 2, 2, 1), (3, 1, 0, 1), (3, 1, 1, 1), (3, 2, 1, 2), (2, 3, 1, 2)]
    for b in bounds:
        r = ctx.model_check("Conc", conc_cfg(*b), timeout=3000)
        expect_ok(ctx, r, "Conc %s" % (b,))
    for b in ([(2, 2, 1, 1)] if ctx.quick else [(2, 2, 0, 1), (2, 2, 1, 1), (3, 1, 1, 1)]):
        r = ctx.model_check("Conc", conc_cfg(*b, live=True), timeout=3000)
        expect_ok(ctx, r, "Conc liveness %s" % (b,))
    ctx.cov.setdefault("model_bounds", {})["Conc(clients,txns/client,queue,rotate every)"] = bounds

    def one(s):
        rr = ctx.model_check("Conc", conc_cfg(2, 2, 1, 1, on=(s,)), timeout=900, expect_violation=True, workers=4)
        expect_violation(ctx, rr, s)
        m = re.findall(r"Invariant (\w+) is violated", rr["out"])
        return s, (m[0] if m else "violated")

    ctx.cov.setdefault("deviation_switches", {}).update(dict(ctx.par(one, CONC_SWITCHES, workers=4)))


def fam_crash_clean(ctx):
    """Crash.tla restricted to clean Close/Open cycles (C02): no crash, up to two closes."""
    pts = [dict(keys=2, maxtxn=3, mem=1, queue=1, l0=1, crashes=0, closes=2),
           dict(keys=2, maxtxn=3, mem=2, queue=2, l0=1, crashes=0, closes=2)]
    if not ctx.quick:
        pts.append(dict(keys=2, maxtxn=4, mem=2, queue=0, l0=2, crashes=0, closes=3))
    for pt in pts:
        r = ctx.model_check("Crash", crash_cfg(invs=["OpenOk", "Durable", "Fresh", "ReopenExact"], **pt), timeout=3000)
        expect_ok(ctx, r, "Crash (clean close) %s" % (pt,))
    ctx.cov.setdefault("model_bounds", {})["Crash(clean close/open cycles)"] = pts
    rr = ctx.model_check("Crash", crash_cfg(keys=2, maxtxn=3, mem=2, queue=2, l0=1, crashes=0, closes=2,
                                            invs=["OpenOk", "Durable", "Fresh", "ReopenExact"], on=("BugExitWithQueue",)),
                         timeout=900, expect_violation=True)
    expect_violation(ctx, rr, "BugExitWithQueue")
    ctx.cov.setdefault("deviation_switches", {})["BugExitWithQueue (Close returns with memtables queued)"] = "Durable"


STORE_SWITCHES = ["BugRemoveNewestImm", "BugEnqueueBeforePush", "BugImmOldestFirst", "BugDropTombstones",
                  "BugDiscardAtNextTs", "BugMarkPassesReader"]


def store_cfg(keys, mc, mem, queue, l0, readers, on=()):
    kw = dict(KEYS=", ".join(map(str, range(1, keys + 1))), MAXCOMMITS=mc, MEM=mem, QUEUE=queue, L0=l0, READERS=readers)
    for s in STORE_SWITCHES:
        kw[s] = T if s in on else F
    return tlc.fill("MC_Store.cfg.tmpl", **kw)


def fam_store(ctx):
    """Store.tla: every interleaving of committer steps, flusher stages, reader open/close and watermark
    moves; ReadsCorrect for every key x every permitted snapshot, NoPanic, GcSafe in every state."""
    bounds = [(2, 3, 1, 1, 1, 1)] if ctx.quick else \
        [(2, 3, 1, 1, 1, 1), (2, 4, 1, 1, 1, 1), (2, 4, 2, 2, 1, 1), (2, 4, 1, 0, 2, 1), (2, 3, 1, 2, 2, 2)]
    for b in bounds:
        r = ctx.model_check("Store", store_cfg(*b), timeout=3400)
        expect_ok(ctx, r, "Store %s" % (b,))
    ctx.cov.setdefault("model_bounds", {})["Store(keys,commits,memThreshold,queue,L0Target,readers)"] = bounds
    if not ctx.quick:
        big = (3, 7, 2, 2, 2, 2)
        r = ctx.model_simulate("Store", store_cfg(*big), num=8000, depth=150)
        expect_ok(ctx, r, "Store simulation %s" % (big,))
        ctx.cov["model_bounds"]["Store, simulated"] = dict(bounds=big, behaviours=r["traces"], states_checked=r["checked"])
    by = {"C01": ["BugRemoveNewestImm", "BugImmOldestFirst", "BugDropTombstones"],
          "C05": ["BugDiscardAtNextTs", "BugMarkPassesReader", "BugRemoveNewestImm"],
          "C12": ["BugEnqueueBeforePush"]}
    sws = by.get(ctx.id, STORE_SWITCHES) if ctx.quick else STORE_SWITCHES

    def one(s):
        rr = ctx.model_check("Store", store_cfg(2, 4, 1, 2, 1, 1, on=(s,)), timeout=1200, expect_violation=True, workers=4)
        expect_violation(ctx, rr, s)
        m = re.findall(r"Invariant (\w+) is violated", rr["out"])
        return s, (m[0] if m else "violated")

    ctx.cov.setdefault("deviation_switches", {}).update(dict(ctx.par(one, sws, workers=3)))


def fam_wal(ctx):
    """WalLog.tla: WAL.Read over every log of a bounded instance cut at every byte: no error, exactly the
    whole records; each deviation switch must be refuted."""
    def cfg(hdr, body, recs, on=()):
        kw = dict(HDR=hdr, MAXBODY=body, MAXRECS=recs)
        for sname in ("BugTornFatal", "BugCompareWhole", "BugHeaderOnly"):
            kw[sname] = T if sname in on else F
        return tlc.fill("MC_WalLog.cfg.tmpl", **kw)
    bnd = (2, 3, 3) if ctx.quick else (3, 4, 4)
    r = ctx.model_check("WalLog", cfg(*bnd), timeout=1800)
    expect_ok(ctx, r, "WalLog %s" % (bnd,))
    ctx.cov.setdefault("model_bounds", {})["WalLog(header bytes,max body,max records)"] = [bnd]

    def one(sname):
        rr = ctx.model_check("WalLog", cfg(2, 3, 3, on=(sname,)), timeout=600, expect_violation=True, workers=2)
        expect_violation(ctx, rr, sname)
        return sname, "ReadOk"
    ctx.cov.setdefault("deviation_switches", {}).update(dict(ctx.par(one, ["BugTornFatal", "BugCompareWhole", "BugHeaderOnly"], workers=3)))


FAMILIES = {"wal": fam_wal, "store": fam_store, "crash_clean": fam_crash_clean, "conc": fam_conc, "wm": fam_wm, "txn": fam_txn, "crash": fam_crash, "crash_torn": lambda ctx: fam_crash(ctx, torn=True)}


def run_family(ctx, name):
    fn = FAMILIES.get(name)
    if fn is None:
        return
    fn(ctx)
