"""TLC model-checking runs ("families") shared by the checks: the design in small bounds plus
the deviation switches as a permanent self-test (each switch must make TLC find a violation)."""
import os, re
import tlc
from common import Machinery

F, T = "FALSE", "TRUE"

TXN_SWITCHES = ["BugConflictGeq", "BugNoReadTracking", "BugNoCommitWait", "BugReadAtNext", "BugCleanupEager",
                "BugApplyBeforeDecide", "BugTrackOwnReads", "BugDoneCommitEarly"]


def txn_cfg(clients, keys, maxtxn, maxops, on=()):
    kw = dict(CLIENTS=", ".join(map(str, range(1, clients + 1))), KEYS=", ".join(map(str, range(1, keys + 1))),
              MAXTXN=maxtxn, MAXOPS=maxops)
    for s in TXN_SWITCHES:
        kw[s] = T if s in on else F
    return tlc.fill("MC_Txn.cfg.tmpl", **kw)


def expect_ok(ctx, res, what):
    if not res["ok"]:
        raise Machinery("TLC reports a violation in the repaired design (%s); the model or the design is wrong:\n%s"
                        % (what, res["out"][-3000:]))


def expect_violation(ctx, res, what):
    if res["rc"] == 0 or "is violated" not in res["out"] and "violated" not in res["out"]:
        raise Machinery("self-test failed: deviation switch %s did not produce a counterexample:\n%s"
                        % (what, res["out"][-1500:]))


TXN_BY_PROP = {
    "C05": ["BugNoCommitWait", "BugDoneCommitEarly"],
    "C06": ["BugNoReadTracking", "BugConflictGeq"],
    "C07": ["BugConflictGeq", "BugTrackOwnReads", "BugCleanupEager"],
    "C08": ["BugApplyBeforeDecide"],
    "C12": ["BugNoCommitWait"],
}
TXN_SAFETY = [s for s in TXN_SWITCHES if s != "BugReadAtNext"]   # that one is a liveness failure


def fam_txn(ctx):
    """Txn.tla: the transaction layer refines the contract (invariants SnapshotReads, Agrees,
    NoTrace, GcSafe, CommitMarkSound, CleanupSafe) in every reachable state of a bounded instance."""
    bounds = [(2, 2, 1, 3), (3, 1, 1, 2)] if ctx.quick else [(3, 2, 1, 3), (2, 2, 2, 3), (3, 1, 1, 3)]
    for bnd in bounds:
        r = ctx.model_check("Txn", txn_cfg(*bnd), timeout=3000)
        expect_ok(ctx, r, "Txn %s" % (bnd,))
    ctx.cov.setdefault("model_bounds", {})["Txn(clients,keys,txns/client,ops/txn)"] = bounds
    sw = TXN_BY_PROP.get(ctx.id, TXN_SAFETY) if ctx.quick else TXN_SAFETY

    def one(s):
        rr = ctx.model_check("Txn", txn_cfg(2, 2, 2, 3, on=(s,)), timeout=900, expect_violation=True, workers=4)
        expect_violation(ctx, rr, s)
        m = re.findall(r"Invariant (\w+) is violated", rr["out"])
        return s, (m[0] if m else "violated")

    ctx.cov.setdefault("deviation_switches", {}).update(dict(ctx.par(one, sw, workers=4)))


FAMILIES = {"txn": fam_txn}


def run_family(ctx, name):
    fn = FAMILIES.get(name)
    if fn is None:
        return
    fn(ctx)
