"""Thin wrappers around TLC: model checking runs and trace validation runs."""
import os, re, shutil, subprocess, tempfile, time, json

VERIF = os.path.dirname(os.path.dirname(os.path.abspath(__file__)))
SPECS = os.path.join(VERIF, "specs")
JAR = "/opt/veriftools/tla/tla2tools.jar:/opt/veriftools/tla/CommunityModules-deps.jar"


def scratch_root():
    return "/dev/shm" if os.path.isdir("/dev/shm") else tempfile.gettempdir()


def _run_tlc(module, cfg_text, workdir, workers, extra_env=None, timeout=600, deque=False, extra_args=None, heap="8g"):
    """Copies specs to workdir, writes cfg, runs TLC. Returns (rc, output, wall)."""
    os.makedirs(workdir, exist_ok=True)
    for f in os.listdir(SPECS):
        if f.endswith(".tla"):
            shutil.copy(os.path.join(SPECS, f), workdir)
    cfg = os.path.join(workdir, module + ".cfg")
    with open(cfg, "w") as fh:
        fh.write(cfg_text)
    env = dict(os.environ)
    if extra_env:
        env.update(extra_env)
    jopts = ["-XX:+UseParallelGC", "-Xmx" + heap, "-Xss512m", "-Djava.io.tmpdir=" + workdir]
    if deque:
        jopts.append("-Dtlc2.tool.queue.IStateQueue=StateDeque")
    cmd = ["java"] + jopts + ["-cp", JAR, "tlc2.TLC", "-workers", str(workers), "-metadir",
                             os.path.join(workdir, "meta"), "-config", cfg, "-nowarning"]
    if extra_args:
        cmd += extra_args
    cmd.append(os.path.join(workdir, module + ".tla"))
    t0 = time.time()
    try:
        p = subprocess.run(cmd, cwd=workdir, env=env, stdout=subprocess.PIPE, stderr=subprocess.STDOUT,
                           timeout=timeout, text=True, errors="replace")
        rc, out = p.returncode, p.stdout
    except subprocess.TimeoutExpired as e:
        rc, out = 124, (e.stdout or "") if isinstance(e.stdout, str) else (e.stdout or b"").decode(errors="replace")
        subprocess.run(["pkill", "-f", "tlc2.TL[C].*" + re.escape(workdir)], check=False)
    return rc, out, time.time() - t0


def parse_stats(out):
    """states generated / distinct from a TLC log."""
    gen = dist = 0
    m = re.findall(r"(\d+) states generated, (\d+) distinct states found", out)
    if m:
        gen, dist = int(m[-1][0]), int(m[-1][1])
    return gen, dist


def fill(template_name, **kw):
    s = open(os.path.join(SPECS, template_name)).read()
    for k, v in kw.items():
        s = s.replace("@" + k + "@", str(v))
    return s


def tla_bool(b):
    return "TRUE" if b else "FALSE"


def validate_abstxn(trace_path, workers, keys, atomic=True, exact=True, timeout=900, workdir=None):
    """Validates an ndjson batch of API traces against AbsTxn.
    Returns dict(accepted, highwater, length, states, distinct, wall, out)."""
    own = workdir is None
    if own:
        workdir = tempfile.mkdtemp(prefix="verif-tlc-", dir=scratch_root())
    try:
        cfg = fill("TraceAbsTxn.cfg.tmpl", WORKERS=", ".join(str(i) for i in range(1, workers + 1)),
                   KEYS=", ".join(str(i) for i in range(1, keys + 1)),
                   ATOMIC=tla_bool(atomic), EXACT=tla_bool(exact))
        rc, out, wall = _run_tlc("TraceAbsTxn", cfg, workdir, 1, {"TRACE": os.path.abspath(trace_path)},
                                 timeout=timeout, deque=True)
        hw = re.findall(r'<<"HIGHWATER", (\d+), (\d+)>>', out)
        gen, dist = parse_stats(out)
        res = dict(rc=rc, wall=wall, states=gen, distinct=dist, out=out)
        if hw:
            best = max(hw, key=lambda x: int(x[0]))
            res["highwater"], res["length"] = int(best[0]), int(best[1])
            res["accepted"] = (res["highwater"] == res["length"] + 1)
        else:
            res["highwater"] = res["length"] = -1
            res["accepted"] = False
        bad = [ln for ln in out.splitlines() if ln.startswith("Error:") and "Postcondition Accepted" not in ln]
        res["machinery_error"] = (not hw) or bool(bad) or rc == 124
        return res
    finally:
        if own:
            shutil.rmtree(workdir, ignore_errors=True)


def validate_trace(module, cfg_text, trace_path, timeout=600):
    """Generic trace validation run (module EXTENDS the spec; HIGHWATER protocol)."""
    workdir = tempfile.mkdtemp(prefix="verif-tlc-", dir=scratch_root())
    try:
        rc, out, wall = _run_tlc(module, cfg_text, workdir, 1, {"TRACE": os.path.abspath(trace_path)},
                                 timeout=timeout, deque=True)
        hw = re.findall(r'<<"HIGHWATER", (\d+), (\d+)>>', out)
        gen, dist = parse_stats(out)
        res = dict(rc=rc, wall=wall, states=gen, distinct=dist, out=out)
        if hw:
            best = max(hw, key=lambda x: int(x[0]))
            res["highwater"], res["length"] = int(best[0]), int(best[1])
            res["accepted"] = (res["highwater"] == res["length"] + 1)
        else:
            res["highwater"] = res["length"] = -1
            res["accepted"] = False
        bad = [ln for ln in out.splitlines() if ln.startswith("Error:") and "Postcondition Accepted" not in ln]
        res["machinery_error"] = (not hw) or bool(bad) or rc == 124
        return res
    finally:
        shutil.rmtree(workdir, ignore_errors=True)
