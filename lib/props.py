"""Per-property checks. Each function drives the real code through the harness, judges the
recorded executions with TLC against the TLA+ contract, model-checks the design, and fills
the evidence."""
import json, os, shutil, subprocess, sys, time

import common, tlc, models
from common import Machinery

CHECKS = {}


def check(pid):
    def deco(fn):
        CHECKS[pid] = fn
        return fn
    return deco


# --------------------------------------------------------------------------- helpers
def run_seq_sharded(ctx, drv, profile, n, ops, seed, shards=common.NCPU, extra=None):
    """Runs `drv seq` in `shards` processes (one DB at a time per process: the flusher is steered).
    Returns list of (outdir, summary, stdout, rc)."""
    outs = []

    def one(sh):
        out = os.path.join(ctx.scratch, "seq-%s-%d" % (profile, sh))
        args = ["seq", "-seed", seed, "-n", n, "-ops", ops, "-profile", profile, "-out", out,
                "-shard", sh, "-shards", shards] + (extra or [])
        rc, o = ctx.drv(drv, args, timeout=3000)
        return out, rc, o

    for out, rc, o in ctx.par(one, range(shards)):
        summ = None
        sp = os.path.join(out, "summary.json")
        if rc == 0 and os.path.exists(sp):
            summ = json.load(open(sp))
        outs.append((out, summ, o, rc))
    return outs


def judge_seq(ctx, outs, what, atomic=True, exact=True, filt=None):
    """Judges the API traces of sharded seq runs against AbsTxn. Returns counts."""
    stats = dict(traces=0, events=0, accepted=0, nontrivial=0, fl_steps=0, reopens=0, max_level=0, commits=0)
    jobs = []
    for out, summ, o, rc in outs:
        for kind, text in common.hard_failures(o):
            p = ctx.save_replay("%s-%s-%s.txt" % (what, kind, os.path.basename(out)), [text])
            ctx.violation(p, "%s in the engine while running %s:\n%s" % (kind, what, text[:1500]), match={"kind": kind})
        if summ is None:
            if rc == 97:
                ctx.undecided.append("a steered script got stuck: " + o[:300].replace("\n", " "))
                continue
            if not common.hard_failures(o):
                raise Machinery("harness run failed rc=%s\n%s" % (rc, o[-2000:]))
            continue
        if summ["traces"] == 0:
            continue
        jobs.append((out, summ))

    def one(job):
        out, summ = job
        return ctx.validate_batch(os.path.join(out, "traces.ndjson"), summ, atomic=atomic, exact=exact)

    # implementation level: the merged hook + API stream of the steered scripts replayed on Store.tla
    # (one deterministic step per event, about 400 events/s: the time limit grows with the batch)
    def impl_one(job):
        out, summ = job
        if not summ.get("impl_offsets"):
            return None
        cfg = tlc.fill("TraceStore.cfg.tmpl", KEYS=", ".join(map(str, range(1, summ["keys"] + 1))))
        to = max(600, summ.get("impl_events", 0) // 100)
        return ctx.validate_batch(os.path.join(out, "impl.ndjson"), dict(offsets=summ["impl_offsets"]), timeout=to,
                                  validator=lambda pth, t: tlc.validate_trace("TraceStore", cfg, pth, timeout=t))

    impl_results = dict(zip([j[0] for j in jobs], ctx.par(impl_one, jobs, workers=8)))

    for (out, summ), (acc, rej) in zip(jobs, ctx.par(one, jobs, workers=8)):
        stats["traces"] += summ["traces"]
        stats["events"] += summ["events"]
        stats["accepted"] += acc
        scripts = [json.loads(l) for l in open(os.path.join(out, "scripts.ndjson"))]
        for r in summ["results"]:
            if r.get("err"):
                p = ctx.save_replay("%s-err-%s.json" % (what, r["id"]), r)
                ctx.violation(p, "engine call failed: %s" % r["err"], match={"kind": "error"})
            if r["db_files"] > 0 or r["fl_steps"] > 0 or r["reopens"] > 0:
                stats["nontrivial"] += 1
            stats["fl_steps"] += r["fl_steps"]
            stats["reopens"] += r["reopens"]
            stats["commits"] += r["commits"]
            stats["max_level"] = max(stats["max_level"], r["max_level"])
        for rj in rej:
            if filt and not filt(rj):
                continue
            i = rj["index"]
            lines = ctx.trace_lines(os.path.join(out, "traces.ndjson"), summ, i)
            name = "%s-%s" % (what, scripts[i]["id"])
            tp = ctx.save_replay(name + ".trace.ndjson", lines)
            ctx.save_replay(name + ".script.json", scripts[i])
            ctx.save_replay(name + ".meta.json", dict(workers=summ["workers"], keys=summ["keys"], atomic=atomic,
                                                      exact=exact, rejected_at=rj["rel"], event=rj["event"],
                                                      script=scripts[i]))
            ctx.violation(tp, "the contract AbsTxn rejects the recorded history of script %s at event %d: %s\n"
                              "(config %s, alphabet %s, mode %s)" % (
                                  scripts[i]["id"], rj["rel"], json.dumps(rj["event"]), json.dumps(scripts[i]["cfg"]),
                                  scripts[i]["alphabet"], scripts[i]["mode"]), match={"kind": "trace"})
        # implementation level: the merged hook + API stream of the steered scripts replayed on Store.tla
        if summ.get("impl_offsets"):
            cfg = tlc.fill("TraceStore.cfg.tmpl", KEYS=", ".join(map(str, range(1, summ["keys"] + 1))))
            ip = os.path.join(out, "impl.ndjson")
            iacc, irej = impl_results[out]
            stats["impl_accepted"] = stats.get("impl_accepted", 0) + iacc
            stats["impl_events"] = stats.get("impl_events", 0) + summ.get("impl_events", 0)
            # self-test of the binding (once per check): a corrupted scalar must be rejected
            if not ctx.cov.get("binding_selftest") and not irej:
                lines = open(ip).read().splitlines()
                idx = [k for k, ln in enumerate(lines) if '"ev":"rotated"' in ln or '"ev":"removed"' in ln]
                if idx:
                    e = json.loads(lines[idx[0]])
                    e["n"] += 1
                    lines[idx[0]] = json.dumps(e)
                    cp = os.path.join(out, "impl-corrupt.ndjson")
                    open(cp, "w").write("\n".join(lines) + "\n")
                    rr = tlc.validate_trace("TraceStore", cfg, cp)
                    if rr["accepted"]:
                        raise Machinery("binding self-test failed: TraceStore accepted a trace with a corrupted immutable count")
                    ctx.cov["binding_selftest"] = "corrupted immutable-list length in event %d rejected at event %d" % (
                        idx[0] + 1, rr["highwater"])
            for rj in irej:
                sid = scripts[summ["impl_scripts"][rj["index"]]]["id"]
                ctx.drift.append("Store.tla does not explain the hook stream of script %s at event %d: %s "
                                 "(implementation-level only; the contract judges separately)" % (sid, rj["rel"], json.dumps(rj["event"])))
        if summ["traces"] and len(ctx.samples) < 3:
            s0 = scripts[0]
            ctx.sample(dict(script=s0["id"], cfg=s0["cfg"], alphabet=s0["alphabet"], mode=s0["mode"],
                            first_steps=s0["steps"][:8], result=summ["results"][0]))
    return stats


def run_conc(ctx, drv, n, seed, profile="", par=4, shards=4, watchdog="60s", impl=False):
    outs = []

    def one(sh):
        out = os.path.join(ctx.scratch, "conc-%s-%d" % (profile or "all", sh))
        rc, o = ctx.drv(drv, ["conc", "-seed", seed * 100 + sh, "-n", n, "-out", out, "-par", par,
                              "-profile", profile, "-watchdog", watchdog] + (["-impl"] if impl else []), timeout=3000)
        summ = None
        sp = os.path.join(out, "summary.json")
        if rc == 0 and os.path.exists(sp):
            summ = json.load(open(sp))
        return out, summ, o, rc

    return ctx.par(one, range(shards))


def judge_conc(ctx, outs, what, exact, filt=None, report_watchdog=False, report_hard=True):
    stats = dict(traces=0, events=0, accepted=0, nontrivial=0, commits=0, conflicts=0)
    jobs = []
    for out, summ, o, rc in outs:
        hf = common.hard_failures(o)
        if report_hard:
            for kind, text in hf:
                p = ctx.save_replay("%s-%s-%s.txt" % (what, kind, os.path.basename(out)), [text])
                ctx.violation(p, "%s while running concurrent transactions:\n%s" % (kind, text[:1500]),
                              match={"kind": kind})
        if summ is None:
            if not hf:
                raise Machinery("harness run failed rc=%s\n%s" % (rc, o[-2000:]))
            continue
        jobs.append((out, summ))

    def one(job):
        out, summ = job
        return ctx.validate_batch(os.path.join(out, "traces.ndjson"), summ, atomic=True, exact=exact)

    for (out, summ), (acc, rej) in zip(jobs, ctx.par(one, jobs, workers=8)):
        stats["traces"] += summ["traces"]
        stats["events"] += summ["events"]
        stats["accepted"] += acc
        for r in summ["results"]:
            stats["commits"] += r["commits"]
            stats["conflicts"] += r["conflicts"]
            if r["db_files"] > 0 and r["commits"] > 0:
                stats["nontrivial"] += 1
            if r.get("watchdog") and report_watchdog:
                p = ctx.save_replay("%s-watchdog-%s.txt" % (what, r["id"]), [r["watchdog"]])
                ctx.violation(p, "calls did not return: %s" % r["watchdog"][:1500], match={"kind": "watchdog"})
        for rj in rej:
            if filt and not filt(rj):
                continue
            i = rj["index"]
            spec = summ["specs"][i]
            lines = ctx.trace_lines(os.path.join(out, "traces.ndjson"), summ, i)
            name = "%s-%s" % (what, spec["id"])
            tp = ctx.save_replay(name + ".trace.ndjson", lines)
            ctx.save_replay(name + ".meta.json", dict(workers=summ["workers"], keys=summ["keys"], atomic=True,
                                                      exact=exact, rejected_at=rj["rel"], event=rj["event"], spec=spec))
            ctx.violation(tp, "the contract AbsTxn (ExactConflict=%s) rejects the recorded concurrent history %s at "
                              "event %d: %s (profile %s, %d workers, config %s)" % (
                                  exact, spec["id"], rj["rel"], json.dumps(rj["event"]), spec["profile"],
                                  spec["workers"], json.dumps(spec["cfg"])), match={"kind": "trace"})
        if summ["traces"] and len(ctx.samples) < 3:
            ctx.sample(dict(scenario=summ["specs"][0], result=summ["results"][0]))
    judge_txn_impl(ctx, jobs, stats)
    return stats


def judge_txn_impl(ctx, jobs, stats):
    """Implementation level: the API + oracle/commit hook stream of every concurrent scenario replayed on
    Txn.tla (asynchronous watermarks) by TraceTxn.tla. Rejections are drift, never a verdict."""
    jobs = [(out, summ) for out, summ in jobs if summ.get("impl_offsets")]
    if not jobs:
        return

    def cfg_of(summ):
        return tlc.fill("TraceTxn.cfg.tmpl", CLIENTS=", ".join(map(str, range(1, summ["workers"] + 1))),
                        KEYS=", ".join(map(str, range(1, summ["keys"] + 1))))

    def one(job):
        out, summ = job
        cfg = cfg_of(summ)
        return ctx.validate_batch(os.path.join(out, "impl.ndjson"), dict(offsets=summ["impl_offsets"]), max_rejections=2,
                                  validator=lambda pth, to: tlc.validate_trace("TraceTxn", cfg, pth, timeout=to))

    for (out, summ), (acc, rej) in zip(jobs, ctx.par(one, jobs, workers=8)):
        stats["txn_impl_accepted"] = stats.get("txn_impl_accepted", 0) + acc
        stats["txn_impl_events"] = stats.get("txn_impl_events", 0) + summ.get("impl_events", 0)
        for rj in rej:
            sid = summ["specs"][summ["impl_specs"][rj["index"]]]["id"]
            ctx.drift.append("Txn.tla does not explain the oracle/commit hook stream of scenario %s at event %d: %s "
                             "(implementation-level only; the contract judges separately)" % (sid, rj["rel"], json.dumps(rj["event"])))
        # self-test of the binding (once per check): a corrupted scalar of a commit decision must be rejected
        if not ctx.cov.get("txn_binding_selftest") and not rej:
            ip = os.path.join(out, "impl.ndjson")
            lines = open(ip).read().splitlines()
            idx = [k for k, ln in enumerate(lines) if '"ev":"committs"' in ln]
            if idx:
                k = idx[len(idx) // 2]
                e = json.loads(lines[k])
                e["nc"] += 1
                lines[k] = json.dumps(e)
                cp = os.path.join(out, "impl-corrupt.ndjson")
                open(cp, "w").write("\n".join(lines[:k + 40]) + "\n")
                rr = tlc.validate_trace("TraceTxn", cfg_of(summ), cp)
                if rr["accepted"] or rr["highwater"] != k + 1:
                    raise Machinery("binding self-test failed: TraceTxn did not reject a corrupted committedTxns length "
                                    "at event %d (highwater %s)" % (k + 1, rr["highwater"]))
                ctx.cov["txn_binding_selftest"] = "corrupted len(committedTxns) in event %d rejected at that event" % (k + 1)


def std_cov(ctx, stats, rule, extra=None):
    ctx.traces_impl += stats["accepted"]
    ctx.cov.update(dict(evaluations=stats["traces"], distinct_nontrivial=stats["nontrivial"], rule=rule,
                        events=stats["events"]))
    ctx.cov.update({k: v for k, v in stats.items() if k not in ("traces", "nontrivial", "events", "accepted",
                                                                "txn_impl_accepted", "txn_impl_events")})
    if "impl_accepted" in stats:
        ctx.cov["implementation_level_traces_accepted_by_Store_tla"] = stats["impl_accepted"]
    if "txn_impl_accepted" in stats:
        ctx.cov["implementation_level_streams_accepted_by_Txn_tla"] = stats.pop("txn_impl_accepted")
        ctx.cov["implementation_level_stream_events"] = stats.pop("txn_impl_events")
    if extra:
        ctx.cov.update(extra)


# --------------------------------------------------------------------------- C01
@check("C01")
def c01(ctx):
    drv = ctx.build()
    models.run_family(ctx, "store")
    n, ops = (96, 30) if ctx.quick else (640, 60)
    outs = run_seq_sharded(ctx, drv, "c01", n, ops, ctx.seed)
    stats = judge_seq(ctx, outs, "c01")
    std_cov(ctx, stats, "random single-client scripts (Set/Delete/empty values, 4 key alphabets, random Config); in "
                        "steer mode every flusher stage is released by the script and all keys are read after every "
                        "step; non-trivial = a table file was written, a flusher stage was steered or a reopen happened")
    ctx.assumptions += ["key/value classes stand for all byte strings", "values >= 64 KiB belong to C11"]


# --------------------------------------------------------------------------- C02
@check("C02")
def c02(ctx):
    drv = ctx.build()
    models.run_family(ctx, "crash_clean")
    n, ops = (96, 30) if ctx.quick else (640, 60)
    outs = run_seq_sharded(ctx, drv, "c02", n, ops, ctx.seed)
    stats = judge_seq(ctx, outs, "c02")
    std_cov(ctx, stats, "random single-client scripts with Close/Open cycles at random positions (queue non-empty, "
                        "right after a rotation, empty memtable), Config re-drawn at reopen except level geometry; "
                        "non-trivial = at least one reopen or table file")


# --------------------------------------------------------------------------- C05 / C06 / C07 / C08 / C12
def _pos_is_read(rj):
    return rj["event"].get("ev") in ("Get", "BeginResp")


@check("C05")
def c05(ctx):
    drv = ctx.build()
    models.run_family(ctx, "txn")
    models.run_family(ctx, "store")
    n = 12 if ctx.quick else 80
    outs = run_conc(ctx, drv, n, ctx.seed, impl=True) + run_conc(ctx, drv, n // 2, ctx.seed + 7, profile="reader", impl=True)
    stats = judge_conc(ctx, outs, "c05", exact=False, filt=_pos_is_read)
    # long-lived readers held open across commits, every flusher stage and compaction (steered)
    n2, ops2 = (48, 40) if ctx.quick else (320, 80)
    stats2 = judge_seq(ctx, run_seq_sharded(ctx, drv, "c05", n2, ops2, ctx.seed), "c05r", exact=False,
                       filt=_pos_is_read)
    for k in ("traces", "events", "accepted", "nontrivial", "commits"):
        stats[k] += stats2[k]
    stats["steered_flusher_stages"] = stats2["fl_steps"]
    std_cov(ctx, stats, "steered scripts with up to three long-lived readers re-reading every key after every "
                        "commit and every released flusher stage (flush, compaction with version discard); concurrent scenarios (2-5 goroutines, 2-4 shared keys, long-lived readers, rmw, write skew, "
                        "blind writes, abandons) on small thresholds; judged hint-free against AbsTxn; only "
                        "rejections at a Get/Begin are attributed to C05; non-trivial = commits happened and table "
                        "files were written while the transactions ran")


@check("C06")
def c06(ctx):
    drv = ctx.build()
    models.run_family(ctx, "txn")
    n = 12 if ctx.quick else 80
    outs = run_conc(ctx, drv, n, ctx.seed + 1, impl=True) + run_conc(ctx, drv, n // 2, ctx.seed + 8, profile="skew", impl=True) + \
        run_conc(ctx, drv, n // 2, ctx.seed + 9, profile="rmw", impl=True)
    stats = judge_conc(ctx, outs, "c06", exact=False)
    std_cov(ctx, stats, "concurrent scenarios incl. write-skew pairs and read-modify-write counters; acceptance by "
                        "AbsTxn (ExactConflict=FALSE: refusals are free) is strict serializability with the commit "
                        "order as serial order; hint-free search over linearization points")


@check("C07")
def c07(ctx):
    drv = ctx.build()
    models.run_family(ctx, "txn")
    n = 12 if ctx.quick else 80
    outs = run_conc(ctx, drv, n, ctx.seed + 2, impl=True) + run_conc(ctx, drv, n // 2, ctx.seed + 10, profile="rmw", impl=True) + \
        run_conc(ctx, drv, n // 2, ctx.seed + 11, profile="skew", impl=True)
    # fingerprint width: disjoint read/write sets of N keys each must not conflict (N*N >> 2^32)
    def bday(i):
        out = os.path.join(ctx.scratch, "bday-%d" % i)
        rc, o = ctx.drv(drv, ["conc", "-birthday", 120000 if ctx.quick else 200000, "-seed", ctx.seed * 10 + i, "-out", out],
                        timeout=600)
        sp = os.path.join(out, "summary.json")
        return out, (json.load(open(sp)) if rc == 0 and os.path.exists(sp) else None), o, rc
    outs += ctx.par(bday, range(2 if ctx.quick else 6), workers=2)
    stats = judge_conc(ctx, outs, "c07", exact=True, filt=lambda rj: rj["event"].get("ev") == "CommitResp")
    std_cov(ctx, stats, "concurrent scenarios (incl. write-then-read of the same key, reads of absent keys, deletes) "
                        "judged with the exact conflict rule (iff); rejections at a Commit response are attributed "
                        "to C07 (over- and under-abort alike); plus the fingerprint birthday scenario: disjoint "
                        "read and write sets of >= 120000 keys each must not conflict")
    ctx.assumptions += ["collisions of the 64-bit key fingerprints are ignored (p < 1e-8 even in the birthday scenario)"]


@check("C08")
def c08(ctx):
    drv = ctx.build()
    models.run_family(ctx, "txn")
    n, ops = (64, 30) if ctx.quick else (480, 60)
    outs = run_seq_sharded(ctx, drv, "c08", n, ops, ctx.seed)
    stats = judge_seq(ctx, outs, "c08")
    outs2 = run_conc(ctx, drv, 8 if ctx.quick else 60, ctx.seed + 3, profile="abandon") + \
        run_conc(ctx, drv, 8 if ctx.quick else 60, ctx.seed + 4, profile="mixed")
    stats2 = judge_conc(ctx, outs2, "c08c", exact=True)
    for k in ("traces", "events", "accepted", "nontrivial", "commits"):
        stats[k] += stats2[k]
    std_cov(ctx, stats, "scripts in which a seeded fraction of transactions is abandoned (Discard, failing Update "
                        "closure, conflict) at every point, interleaved with commits, flusher stages and reopen, plus "
                        "every misuse call (read-only write, finished txn, empty key, double commit, View/Update "
                        "after Close); values identify the writing transaction, so a leaked write is a value the "
                        "contract never committed")


@check("C12")
def c12(ctx):
    drv = ctx.build(race=True)
    models.run_family(ctx, "conc")
    if not ctx.quick:
        models.run_family(ctx, "store")
    n = 6 if ctx.quick else 40
    outs = run_conc(ctx, drv, n, ctx.seed + 5, par=2, shards=8, watchdog="180s")
    stats = judge_conc(ctx, outs, "c12", exact=True, report_watchdog=True)
    std_cov(ctx, stats, "concurrent scenarios executed by a harness built with -race (thresholds down to 1 byte, queue "
                        "length 0..4); a race report, a panic or a history rejected by AbsTxn is a violation")
    ctx.assumptions += ["the Go race detector decides the memory-model clause for the schedules executed, not for all"]


# --------------------------------------------------------------------------- C03 / C04 / C14
def run_crash(ctx, drv, n, ops, seed, torn="", depth=1, shards=8, par=2, walname=False, deep_every=6, dur=False):
    def one(sh):
        out = os.path.join(ctx.scratch, "crash-%s-%d" % (torn or "p", sh))
        args = ["crash", "-seed", seed, "-n", n, "-ops", ops, "-out", out, "-shard", sh, "-shards", shards,
                "-par", par, "-depth", depth]
        if torn:
            args += ["-torn", torn]
        if walname:
            args += ["-walname"]
        if dur:
            args += ["-dur"]
        if depth > 1:
            args += ["-deep-every", deep_every]
        rc, o = ctx.drv(drv, args, timeout=3400 if ctx.quick else 14000)
        summ = None
        sp = os.path.join(out, "summary.json")
        if rc == 0 and os.path.exists(sp):
            summ = json.load(open(sp))
        return out, summ, o, rc
    return ctx.par(one, range(shards), workers=shards)


def judge_crash(ctx, outs, what, mode):
    """mode: "c03" (per-key in-flight, untorn images), "c04" (whole-or-nothing), "c14" (torn variants)."""
    stats = dict(traces=0, events=0, accepted=0, nontrivial=0, images=0, inflight=0, torn=0, level2=0, open_failed=0,
                 by_op={})
    jobs = []
    for out, summ, o, rc in outs:
        for kind, text in common.hard_failures(o):
            p = ctx.save_replay("%s-%s-%s.txt" % (what, kind, os.path.basename(out)), [text])
            ctx.violation(p, "%s in the engine while running the crash workload:\n%s" % (kind, text[:1500]),
                          match={"kind": kind})
        if summ is None:
            if rc == 97:
                ctx.undecided.append("a steered crash workload got stuck: " + o[:300].replace("\n", " "))
                continue
            if not common.hard_failures(o):
                raise Machinery("harness run failed rc=%s\n%s" % (rc, o[-2000:]))
            continue
        stats["images"] += summ["images"]
        jobs.append((out, summ))

    def sel(oc):
        torn = oc["variant"].startswith("torn")
        if mode == "c14":
            return torn or oc["level"] > 1      # the torn variants, and crashes inside recovery
        return not torn

    def one(job):
        out, summ = job
        # keep only the traces this property judges
        keep = [i for i, oc in enumerate(summ["outcomes"]) if sel(oc)]
        lines = open(os.path.join(out, "traces.ndjson")).read().splitlines()
        offs = summ["offsets"]
        sub, suboffs, n = [], [], 1
        for i in keep:
            end = offs[i + 1] - 1 if i + 1 < len(offs) else len(lines)
            suboffs.append(n)
            sub += lines[offs[i] - 1:end]
            n = len(sub) + 1
        sp = os.path.join(out, "sub-%s.ndjson" % mode)
        open(sp, "w").write("\n".join(sub) + "\n")
        ssum = dict(offsets=suboffs, workers=summ["workers"], keys=summ["keys"])
        if not keep:
            return keep, sp, ssum, 0, [], []
        acc, rej = ctx.validate_batch(sp, ssum, atomic=(mode == "c04"), exact=True)
        rej2 = []
        if mode == "c04" and rej:
            # attribute to C04 only what the per-key reading (C03) accepts
            for rj in rej:
                tl = ctx.trace_lines(sp, ssum, rj["index"])
                fd = os.path.join(out, "c04-%d.ndjson" % rj["index"])
                open(fd, "w").write("\n".join(tl) + "\n")
                a2, r2 = ctx.validate_batch(fd, dict(offsets=[1], workers=summ["workers"], keys=summ["keys"]),
                                            atomic=False, exact=True)
                if not r2:
                    rej2.append(rj)
            rej = rej2
        return keep, sp, ssum, acc, rej, []

    for (out, summ), (keep, sp, ssum, acc, rej, _) in zip(jobs, ctx.par(one, jobs, workers=8)):
        stats["traces"] += len(keep)
        stats["accepted"] += acc
        scripts = {}
        for l in open(os.path.join(out, "scripts.ndjson")):
            sc = json.loads(l)
            scripts[sc["id"]] = sc
        for i in keep:
            oc = summ["outcomes"][i]
            stats["events"] += oc["events"]
            stats["nontrivial"] += 1 if (oc["inflight"] or oc["op"] in ("rename", "remove", "create")) else 0
            stats["inflight"] += 1 if oc["inflight"] else 0
            stats["torn"] += 1 if oc["variant"].startswith("torn") else 0
            stats["level2"] += 1 if oc["level"] > 1 else 0
            stats["by_op"][oc["op"]] = stats["by_op"].get(oc["op"], 0) + 1
            if oc["exit"] == 124:
                ctx.undecided.append("recovery of image %d of %s did not finish within 600 s" % (oc["image"], oc["script"]))
                continue
            if oc["exit"] != 0 and mode != "c04":
                stats["open_failed"] += 1
                name = "%s-%s-img%d-l%d" % (what, oc["script"], oc["image"], oc["level"])
                rp = ctx.save_replay(name + ".json", dict(outcome=oc, script=scripts.get(oc["script"]),
                                                         image_dir=oc.get("keep")))
                if oc.get("keep") and os.path.isdir(oc["keep"]):
                    dst = os.path.join(common.REPLAYS, ctx.id, name + ".image")
                    shutil.rmtree(dst, ignore_errors=True)
                    shutil.copytree(oc["keep"], dst)
                ctx.violation(rp, "Open/recovery failed (exit %d) on the crash image taken before %s of %s (%s) in script "
                                  "%s:\n%s" % (oc["exit"], oc["op"], oc["file"], oc["variant"] or "process crash",
                                               oc["script"], oc.get("stderr", "")[:1200]), match={"kind": "open-failed"})
        for rj in rej:
            i = keep[rj["index"]]
            oc, meta = summ["outcomes"][i], summ["meta"][i]
            tl = ctx.trace_lines(sp, ssum, rj["index"])
            name = "%s-%s-img%d-l%d-%d" % (what, oc["script"], oc["image"], oc["level"], i)
            tp = ctx.save_replay(name + ".trace.ndjson", tl)
            ctx.save_replay(name + ".meta.json", dict(workers=summ["workers"], keys=summ["keys"], atomic=(mode == "c04"),
                                                      exact=True, rejected_at=rj["rel"], event=rj["event"], outcome=oc,
                                                      script=scripts.get(oc["script"])))
            ctx.violation(tp, "after a crash before %s of %s (%s; image %d of script %s, crash level %d) the recovered "
                              "store contradicts the contract at event %d: %s" % (
                                  oc["op"], oc["file"], oc["variant"] or "process crash", oc["image"], oc["script"],
                                  oc["level"], rj["rel"], json.dumps(rj["event"])), match={"kind": "trace"})
        if keep and len(ctx.samples) < 3:
            oc = summ["outcomes"][keep[0]]
            ctx.sample(dict(crash_before="%s %s" % (oc["op"], oc["file"]), variant=oc["variant"], script=oc["script"],
                            inflight_commit=oc["inflight"], events=oc["events"], child_exit=oc["exit"]))
    return stats


def crash_cov(ctx, stats, rule):
    ctx.traces_impl += stats["accepted"]
    ctx.cov.update(dict(evaluations=stats["traces"], distinct_nontrivial=stats["nontrivial"], rule=rule,
                        events=stats["events"], crash_images=stats["images"], inflight_commit_images=stats["inflight"],
                        torn_variants=stats["torn"], second_level_images=stats["level2"], recoveries_failed=stats["open_failed"],
                        images_by_next_fs_op=stats["by_op"]))


def judge_dur(ctx, outs):
    """Implementation level: the file-system + hook stream of every uncrashed crash-script run (committer,
    flusher, compaction, Close, clean reopen) replayed on Crash.tla by TraceCrash.tla. Rejections are drift."""
    cfg = open(os.path.join(tlc.SPECS, "TraceCrash.cfg")).read()
    jobs = [(out, summ) for out, summ, o, rc in outs if summ and summ.get("dur_offsets")]

    def one(job):
        out, summ = job
        return ctx.validate_batch(os.path.join(out, "dur.ndjson"), dict(offsets=summ["dur_offsets"]), max_rejections=2,
                                  validator=lambda pth, to: tlc.validate_trace("TraceCrash", cfg, pth, timeout=to))

    acc_total = ev_total = 0
    for (out, summ), (acc, rej) in zip(jobs, ctx.par(one, jobs, workers=8)):
        acc_total += acc
        ev_total += summ.get("dur_events", 0)
        for rj in rej:
            ctx.drift.append("Crash.tla does not explain the file-system/hook stream of script %s at event %d: %s "
                             "(implementation-level only; the contract judges separately)" % (
                                 summ["dur_scripts"][rj["index"]], rj["rel"], json.dumps(rj["event"])))
        # self-test of the binding (once per check): a wal deleted before its table was renamed must be rejected
        if not ctx.cov.get("crash_binding_selftest") and not rej:
            lines = [json.loads(x) for x in open(os.path.join(out, "dur.ndjson"))]
            idx = [k for k in range(len(lines) - 1) if lines[k]["ev"] == "tab" and lines[k]["op"] == "rename"
                   and lines[k + 1]["ev"] == "wal" and lines[k + 1]["op"] == "remove"]
            if idx:
                k = idx[len(idx) // 2]
                lines[k], lines[k + 1] = lines[k + 1], lines[k]
                cp = os.path.join(out, "dur-corrupt.ndjson")
                open(cp, "w").write("\n".join(json.dumps(x) for x in lines[:k + 30]) + "\n")
                rr = tlc.validate_trace("TraceCrash", cfg, cp)
                if rr["accepted"] or rr["highwater"] != k + 1:
                    raise Machinery("binding self-test failed: TraceCrash did not reject a wal removal moved before the "
                                    "rename of its table at event %d (highwater %s)" % (k + 1, rr["highwater"]))
                ctx.cov["crash_binding_selftest"] = "wal removal moved before the table rename (event %d) rejected there" % (k + 1)
    ctx.cov["implementation_level_streams_accepted_by_Crash_tla"] = acc_total
    ctx.cov["implementation_level_stream_events"] = ev_total


@check("C03")
def c03(ctx):
    drv = ctx.build()
    models.run_family(ctx, "crash")
    n, ops = (16, 12) if ctx.quick else (64, 14)
    outs = run_crash(ctx, drv, n, ops, ctx.seed, depth=2, deep_every=30 if ctx.quick else 8, walname=True, dur=True)
    stats = judge_crash(ctx, outs, "c03", "c03")
    judge_dur(ctx, outs)
    crash_cov(ctx, stats, "steered multi-key workloads with tiny thresholds (flush, cascaded compaction, reopen, Close); "
                          "a crash image is the directory copied while the engine is held before a file-system "
                          "operation (create/write/sync/rename/remove of wal and table files, by committer, flusher, "
                          "Close and recovery); every distinct image is recovered by a fresh child process (Open, read "
                          "all, commit, close, reopen, read all) and the stitched history is judged against AbsTxn "
                          "(in-flight commit: per key old or new); non-trivial = a commit was in flight or the next "
                          "operation was a create/rename/remove")
    ctx.assumptions += ["process-crash model: every completed file-system operation persists (the property's model)"]


@check("C04")
def c04(ctx):
    drv = ctx.build()
    models.run_family(ctx, "crash")
    n, ops = (16, 12) if ctx.quick else (48, 14)
    outs = run_crash(ctx, drv, n, ops, ctx.seed + 50, depth=2, deep_every=20 if ctx.quick else 10)
    stats = judge_crash(ctx, outs, "c04", "c04")
    crash_cov(ctx, stats, "the C03 image enumeration on multi-key transactions (1-3 keys, rotation on every commit in "
                          "part of the configurations); judged with AtomicInflight=TRUE; a history is attributed to C04 "
                          "when the whole-or-nothing contract rejects it and the per-key contract accepts it")
    ctx.assumptions += ["atomicity under lost unsynced tails is not claimed by C04 and not judged (see DESIGN.md)"]


@check("C14")
def c14(ctx):
    drv = ctx.build()
    models.run_family(ctx, "crash_torn")
    n, ops = (12, 10) if ctx.quick else (16, 12)
    outs = run_crash(ctx, drv, n, ops, ctx.seed + 90, torn="quick" if ctx.quick else "thorough", depth=2,
                     deep_every=25 if ctx.quick else 20)
    stats = judge_crash(ctx, outs, "c14", "c14")
    crash_cov(ctx, stats, "every crash image of the C03 enumeration, and for every file with bytes written after its last "
                          "fsync (tracked from the fs hooks) the file cut back to {synced, synced+1, middle, written-1} "
                          "(thorough: every byte boundary of short tails, 16 sampled cuts of long ones); Open must "
                          "succeed and every acknowledged commit must be visible")
    ctx.assumptions += ["directory operations are ordered and durable; no reordering inside a file beyond prefix truncation"]
    # the fsync discipline on the system calls the process really made (hooks cannot misreport these)
    import straceparse

    def audit(i):
        d = os.path.join(ctx.scratch, "fsa-%d" % i)
        os.makedirs(d, exist_ok=True)
        log = os.path.join(ctx.scratch, "fsa-%d.strace" % i)
        ev = []
        for phase in (1, 2):
            plog = "%s.%d" % (log, phase)
            cmd = ["strace", "-f", "-y", "-s", "80", "-e", "trace=write,pwrite64,fsync,fdatasync,rename,renameat,renameat2,"
                   "unlink,unlinkat,openat", "-o", plog, drv, "fsaudit", "-dir", d, "-seed", str(ctx.seed * 10 + i),
                   "-n", "20", "-phase", str(phase)]
            p = subprocess.run(cmd, env=common.go_env(), stdout=subprocess.PIPE, stderr=subprocess.STDOUT, text=True,
                               timeout=600)
            if p.returncode != 0:
                hf = common.hard_failures(p.stdout)
                if hf:
                    rp = ctx.save_replay("c14-fsaudit-%s-%d.txt" % (hf[0][0], i), [hf[0][1]])
                    ctx.violation(rp, "%s during the fsync audit workload (phase %d): %s" % (hf[0][0], phase, hf[0][1]),
                                  match={"kind": hf[0][0]})
                    return 0
                raise Machinery("fsaudit under strace failed: " + p.stdout[-1500:])
            ev += straceparse.parse(plog, d)
            with open(log, "a") as fh:
                fh.write(open(plog).read())
        if sum(1 for e in ev if e["ev"] == "fsync") == 0 and sum(1 for e in ev if e["ev"] == "ack") == 0:
            raise Machinery("strace log has no fsync/ack events: tracing does not work here")
        tp = os.path.join(ctx.scratch, "fsa-%d.ndjson" % i)
        straceparse.write_trace(ev, tp)
        r = tlc.validate_trace("TraceFs", open(os.path.join(tlc.SPECS, "TraceFs.cfg")).read(), tp)
        ctx.states += r["distinct"]
        ctx.transitions += r["states"]
        if r["machinery_error"]:
            raise Machinery("TraceFs validation failed to run: " + r["out"][-1500:])
        if not r["accepted"]:
            lines = open(tp).read().splitlines()
            rp = ctx.save_replay("c14-fsaudit-%d.fstrace.ndjson" % i, lines)
            shutil.copy(log, rp.replace(".fstrace.ndjson", ".strace.log"))
            ctx.violation(rp, "the system calls of the engine break the durability discipline (TraceFs.tla) at call %d: %s "
                              "(preceding: %s)" % (r["highwater"], lines[r["highwater"] - 1],
                                                   " ; ".join(lines[max(0, r["highwater"] - 4):r["highwater"] - 1])),
                          match={"kind": "fs-discipline"})
            return 0
        return len(ev)

    audited = ctx.par(audit, range(2 if ctx.quick else 8), workers=4)
    ctx.traces_impl += sum(1 for a in audited if a)
    ctx.cov["fsync_audit_syscalls_checked"] = sum(audited)
    # one wal file, every byte offset: WAL.Read of real logs cut at every length (WalLog.tla / TraceWal.tla)
    models.run_family(ctx, "wal")
    wout = os.path.join(ctx.scratch, "walcut")
    rc, o = ctx.drv(drv, ["walcut", "-seed", ctx.seed, "-n", 40 if ctx.quick else 400, "-recs", 5 if ctx.quick else 7,
                          "-out", wout], timeout=1800)
    if rc != 0:
        raise Machinery("walcut driver failed rc=%s: %s" % (rc, o[-1500:]))
    wp = os.path.join(wout, "walcut.ndjson")
    r = tlc.validate_trace("TraceWal", open(os.path.join(tlc.SPECS, "TraceWal.cfg")).read(), wp, timeout=1800)
    ctx.states += r["distinct"]
    ctx.transitions += r["states"]
    if r["machinery_error"]:
        raise Machinery("TraceWal validation failed to run: " + r["out"][-1500:])
    wsum = json.load(open(os.path.join(wout, "summary.json")))
    ctx.cov["wal_cut_reads_checked"] = wsum["events"]
    ctx.cov["wal_cuts_losing_records"] = wsum["cuts_losing_records"]
    if not r["accepted"]:
        lines = open(wp).read().splitlines()
        e = json.loads(lines[r["highwater"] - 1])
        rp = ctx.save_replay("c14-walcut-%d-%d.json" % (e["log"], e["cut"]), e)
        ctx.violation(rp, "WAL.Read of a log cut at byte %d (fsync boundaries %s, records up to them %s) %s: a torn tail "
                          "must end the log, and every record of a completed Write before the cut must be returned" % (
                              e["cut"], e["bends"], e["bcnt"],
                              ("failed: " + e["detail"]) if e["err"] else
                              ("returned wrong entries: " + e["detail"]) if not e["same"] else
                              "returned only %d entries" % e["got"]), match={"kind": "walcut"})
    else:
        ctx.traces_impl += wsum["logs"]
        # the stronger, format-specific statement of WalLog.tla (exactly the whole records, 8-byte headers)
        exact = 0
        for ln in open(wp):
            e = json.loads(ln)
            c, n = e["cut"], 0
            for sz in e["sizes"]:
                if 8 + sz > c:
                    break
                c -= 8 + sz
                n += 1
            exact += (n == e["got"])
        if exact != wsum["events"]:
            ctx.drift.append("WAL.Read returned something else than 'exactly the whole records' (8-byte length headers) "
                             "for %d of %d cuts: the record format differs from WalLog.tla" % (wsum["events"] - exact, wsum["events"]))


# --------------------------------------------------------------------------- C13
def wm_exhaustive(maxlen, nidx=3):
    """All call sequences up to maxlen over Begin/Done of nidx indices and WaitForMark(1): one
    client per call (so that waits can stay parked), DoneUntil observed after every call."""
    import itertools
    alpha = [("b", i) for i in range(nidx)] + [("d", i) for i in range(nidx)] + [("w", 1), ("x", 0)]
    scen = []
    for n in range(1, maxlen + 1):
        for seq in itertools.product(alpha, repeat=n):
            calls = [[{"kind": k, "ts": t}, {"kind": "o", "ts": 0}] for k, t in seq]
            scen.append(dict(id="wm-ex-" + "".join(k + str(t) for k, t in seq), mode="seq", procs=n, nidx=nidx,
                             calls=calls, seed=len(scen)))
    return scen


def judge_wm(ctx, outdir, what):
    summ = json.load(open(os.path.join(outdir, "summary.json")))
    cfg = tlc.fill("TraceWatermark.cfg.tmpl", PROCS=", ".join(map(str, range(1, summ["procs"] + 1))),
                   IDX=", ".join(map(str, range(0, summ["nidx"]))))
    tp = os.path.join(outdir, "traces.ndjson")
    acc, rej = ctx.validate_batch(tp, summ, validator=lambda pth, to: tlc.validate_trace("TraceWatermark", cfg, pth, timeout=to))
    for r in summ["results"]:
        if r.get("stuck"):
            p = ctx.save_replay("%s-stuck-%s.json" % (what, r["id"]), r)
            ctx.violation(p, "watermark scenario %s did not quiesce: %s" % (r["id"], r["stuck"]), match={"kind": "stuck"})
    for rj in rej:
        i = rj["index"]
        sc = summ["scenarios"][i]
        lines = ctx.trace_lines(tp, summ, i)
        name = "%s-%s" % (what, sc["id"])
        rp = ctx.save_replay(name + ".wmtrace.ndjson", lines)
        ctx.save_replay(name + ".meta.json", dict(procs=summ["procs"], nidx=summ["nidx"], scenario=sc,
                                                  rejected_at=rj["rel"], event=rj["event"]))
        ctx.violation(rp, "Watermark.tla rejects the recorded execution of scenario %s at event %d: %s" % (
            sc["id"], rj["rel"], json.dumps(rj["event"])), match={"kind": "trace"})
    if summ["scenarios"]:
        ctx.sample(dict(scenario=summ["scenarios"][len(summ["scenarios"]) // 2], result=summ["results"][len(summ["results"]) // 2]))
    nontriv = sum(1 for r in summ["results"] if r["final_du"] > 0 or r["waits"] > 0)
    return dict(traces=summ["traces"], events=summ["events"], accepted=acc, nontrivial=nontriv)


@check("C13")
def c13(ctx):
    drv = ctx.build()
    models.run_family(ctx, "wm")
    total = dict(traces=0, events=0, accepted=0, nontrivial=0)
    # (1) exhaustive small sequences, replayed on the real WaterMark
    scen = wm_exhaustive(3 if ctx.quick else 4)
    chunks = [scen[i::8] for i in range(8)]

    def ex(i):
        out = os.path.join(ctx.scratch, "wm-ex-%d" % i)
        os.makedirs(out, exist_ok=True)
        sf = os.path.join(out, "scen.ndjson")
        with open(sf, "w") as fh:
            for sc in chunks[i]:
                fh.write(json.dumps(sc) + "\n")
        rc, o = ctx.drv(drv, ["wm", "-scenarios", sf, "-out", out, "-par", 8], timeout=1200)
        if rc != 0:
            raise Machinery("wm driver failed: " + o[-1500:])
        return judge_wm(ctx, out, "c13ex")

    # (2) random longer sequences and (3) concurrent drivers
    def rnd(job):
        mode, i, n = job
        out = os.path.join(ctx.scratch, "wm-%s-%d" % (mode, i))
        rc, o = ctx.drv(drv, ["wm", "-seed", ctx.seed * 100 + i, "-n", n, "-mode", mode, "-out", out, "-par", 8],
                        timeout=1200)
        if rc != 0:
            hf = common.hard_failures(o)
            if hf:
                p = ctx.save_replay("c13-%s-%d.txt" % (hf[0][0], i), [hf[0][1]])
                ctx.violation(p, "%s in pkg/watermark: %s" % hf[0], match={"kind": hf[0][0]})
                return dict(traces=0, events=0, accepted=0, nontrivial=0)
            raise Machinery("wm driver failed: " + o[-1500:])
        return judge_wm(ctx, out, "c13" + mode)

    n = 60 if ctx.quick else 500
    jobs = [("seq", i, n) for i in range(4)] + [("conc", 10 + i, n) for i in range(4)] + \
        [("stampede", 20, 40 if ctx.quick else 400)]
    for st in ctx.par(ex, range(8), workers=8) + ctx.par(rnd, jobs, workers=8):
        for k in total:
            total[k] += st[k]
    total["exhaustive_sequences"] = len(scen)
    std_cov(ctx, total, "every call sequence of length <= %d over Begin/Done of 3 indices and WaitForMark, replayed on "
                        "the real WaterMark with DoneUntil observed after every call; stampedes of 400 waiters reading DoneUntil right after "
                        "WaitForMark returned; random longer sequences (repeated "
                        "indices, out-of-order completion, Done without Begin); concurrent drivers (2-4 goroutines). "
                        "Each recorded execution is validated by TLC against Watermark.tla with the channel send and "
                        "the consumer steps as silent steps; non-trivial = the mark moved or a wait was involved"
                        % (3 if ctx.quick else 4))
    ctx.cov["exhaustive"] = False


# --------------------------------------------------------------------------- C09 / C10
def levels_check(ctx, prop):
    drv = ctx.build()
    scen = models.fam_levels(ctx)
    out = os.path.join(ctx.scratch, "lv")
    os.makedirs(out, exist_ok=True)
    sf = os.path.join(out, "scen.ndjson")
    # the scenario universe is shared; with fp (filter answers) and duplicates removed
    uniq = sorted(set(body for _, body in scen))
    exported = len(uniq)
    if ctx.quick:
        # quick tier: every single-table scenario and a seeded eighth of the two-table ones
        import zlib
        uniq = [b for b in uniq if b.count("[{") <= 1 or zlib.crc32(b.encode()) % 8 == ctx.seed % 8]
    open(sf, "w").write("\n".join(uniq) + "\n")
    rc, o = ctx.drv(drv, ["lv", "-scenarios", sf, "-seed", ctx.seed, "-n", 500 if ctx.quick else 4000, "-out", out],
                    timeout=3400)
    if rc != 0:
        hf = common.hard_failures(o)
        if hf:
            p = ctx.save_replay("%s-%s.txt" % (prop.lower(), hf[0][0]), [hf[0][1]])
            ctx.violation(p, "%s in the level manager: %s" % hf[0], match={"kind": hf[0][0]})
            return
        raise Machinery("lv driver failed: " + o[-1500:])
    summ = json.load(open(os.path.join(out, "summary.json")))
    for e in summ.get("errors") or []:
        p = ctx.save_replay("%s-error.txt" % prop.lower(), [e])
        ctx.violation(p, "level manager call failed: " + e, match={"kind": "error"})
    mine = [m for m in (summ.get("mismatches") or []) if m["property"] == prop]
    for i, mm in enumerate(mine[:10]):
        p = ctx.save_replay("%s-scenario-%d.json" % (prop.lower(), i), mm)
        ctx.violation(p, "table-level lookup of %s deviates from Levels.tla in phase %s (alphabet %s, L0Target %s, ratio %s): "
                         "real %s, spec %s; tables %s, watermark %d, %d entries per block" % (
                             mm["query"], mm["phase"], mm["alphabet"], mm["l0"], mm["ratio"], mm["got"], mm["want"],
                             json.dumps(mm["scenario"]["tables"]), mm["scenario"]["wm"], mm["scenario"]["bs"]),
                      match={"kind": "scenario"})
    for sm in (summ.get("samples") or [])[:2]:
        ctx.sample(dict(tlc_scenario_replayed=dict(tables=sm["tables"], wm=sm["wm"], bs=sm["bs"])))
    # random larger scenarios judged by TLC against the contract
    tp = os.path.join(out, "traces.ndjson")
    cfg = open(os.path.join(tlc.SPECS, "TraceLookup.cfg")).read()
    acc, rej = ctx.validate_batch(tp, summ, validator=lambda pth, to: tlc.validate_trace("TraceLookup", cfg, pth, timeout=to))
    for rj in rej:
        i = rj["index"]
        lines = ctx.trace_lines(tp, summ, i)
        compacted = any('"ev":"Compact"' in ln for ln in lines[:rj["rel"]])
        # a wrong answer for ts >= watermark contradicts C10 wherever it happens ("the newest version any table
        # holds"); it contradicts C09 when a compaction preceded it
        if prop == "C09" and not compacted:
            continue
        rp = ctx.save_replay("%s-%s.lktrace.ndjson" % (prop.lower(), summ["metas"][i]["id"]), lines)
        ctx.violation(rp, "the lookup contract rejects the recorded level-manager run %s at event %d: %s" % (
            json.dumps(summ["metas"][i]), rj["rel"], json.dumps(rj["event"])), match={"kind": "trace"})
    total = dict(traces=summ["replays"] + summ["traces"], events=summ["events"], accepted=acc + summ["replays"] - len(mine),
                 nontrivial=summ["nontrivial"] + summ["traces"], tlc_scenarios_exported=exported,
                 tlc_scenarios_replayed=summ["scenarios"],
                 scenario_replays=summ["replays"])
    std_cov(ctx, total, "every initial state of Levels.tla (all sequences of <= 2 flushed tables over 2 keys x 2 versions "
                        "with tombstones, every watermark, 1-3 entries per block) is replayed on a real level manager "
                        "(two key alphabets, several level geometries): lookups for every (key, ts) after flush, after "
                        "recovery of the handles, after checkAndCompact (ts >= watermark) and after recovery again are "
                        "compared with the spec's answers; plus random larger runs (<= 6 keys x 9 versions, cascaded "
                        "compactions, changing watermark, three alphabets incl. 300-byte prefixes) judged by TLC against "
                        "TraceLookup.tla; non-trivial = more than one table/entry")


@check("C10")
def c10(ctx):
    levels_check(ctx, "C10")


@check("C09")
def c09(ctx):
    levels_check(ctx, "C09")


# --------------------------------------------------------------------------- C15
@check("C15")
def c15(ctx):
    drv = ctx.build()
    models.run_family(ctx, "conc")
    n = 6 if ctx.quick else 40
    outs = run_conc(ctx, drv, n, ctx.seed + 20, profile="stress", par=3, shards=6, watchdog="120s") + \
        run_conc(ctx, drv, n // 2, ctx.seed + 21, profile="mixed", par=3, shards=2, watchdog="120s")
    stats = judge_conc(ctx, outs, "c15", exact=True, report_watchdog=True)
    left = 0
    for out, summ, o, rc in outs:
        if summ:
            for r in summ["results"]:
                if r.get("wal_left", 0) > 0 and not r.get("watchdog"):
                    left += 1
                    p = ctx.save_replay("c15-wal-left-%s.json" % r["id"], r)
                    ctx.violation(p, "after Close returned %d wal file(s) were still in the directory of scenario %s: "
                                     "the flusher had not finished" % (r["wal_left"], r["id"]), match={"kind": "wal-left"})
    std_cov(ctx, stats, "stress scenarios (3-5 goroutines, rotation on every commit, flush queue 0..2, many Begins while a "
                        "commit is in progress, Close with flushes pending, reopen at once and read everything) under a "
                        "60 s watchdog per scenario (normal: < 1 s); a call that does not return, a wal file left behind "
                        "by Close, or a history AbsTxn rejects (incl. the Close/Open pair) is a violation")
    ctx.assumptions += ["Close concurrent with calls still in flight is outside the property as read here"]


# --------------------------------------------------------------------------- C16
@check("C16")
def c16(ctx):
    drv = ctx.build()
    for (m, h) in ([(2, 1), (3, 2)] if ctx.quick else [(2, 1), (3, 2), (4, 2), (3, 3)]):
        r = ctx.model_check("Filter", tlc.fill("MC_Filter.cfg.tmpl", M=m, H=h, BugOtherSeeds=models.F, BugBuildFromVersioned=models.F),
                            timeout=900)
        models.expect_ok(ctx, r, "Filter M=%d H=%d" % (m, h))
    st = {}
    for sw in ("BugOtherSeeds", "BugBuildFromVersioned"):
        kw = dict(M=3, H=2, BugOtherSeeds=models.F, BugBuildFromVersioned=models.F)
        kw[sw] = models.T
        rr = ctx.model_check("Filter", tlc.fill("MC_Filter.cfg.tmpl", **kw), timeout=600, expect_violation=True)
        models.expect_violation(ctx, rr, sw)
        st[sw] = "NoFalseNegative"
    ctx.cov["deviation_switches"] = st
    total = dict(traces=0, events=0, accepted=0, nontrivial=0, members_checked=0)
    for i in range(2 if ctx.quick else 6):
        out = os.path.join(ctx.scratch, "filt-%d" % i)
        rc, o = ctx.drv(drv, ["filt", "-seed", ctx.seed * 10 + i, "-out", out] + (["-big"] if (i == 0 or not ctx.quick) else []),
                        timeout=1800)
        if rc != 0:
            hf = common.hard_failures(o)
            if hf:
                p = ctx.save_replay("c16-%s-%d.txt" % (hf[0][0], i), [hf[0][1]])
                ctx.violation(p, "%s in pkg/filter / table recovery: %s" % hf[0], match={"kind": hf[0][0]})
                continue
            raise Machinery("filt driver failed: " + o[-1500:])
        tp = os.path.join(out, "traces.ndjson")
        evs = [json.loads(l) for l in open(tp)]
        r = tlc.validate_trace("TraceFilter", open(os.path.join(tlc.SPECS, "TraceFilter.cfg")).read(), tp)
        ctx.states += r["distinct"]
        ctx.transitions += r["states"]
        if r["machinery_error"]:
            raise Machinery("TraceFilter failed to run: " + r["out"][-1200:])
        total["traces"] += len(evs)
        total["events"] += len(evs)
        total["members_checked"] += sum(e["members"] for e in evs)
        total["nontrivial"] += sum(1 for e in evs if e["n"] > 1)
        if r["accepted"]:
            total["accepted"] += len(evs)
        else:
            bad = evs[r["highwater"] - 1]
            rp = ctx.save_replay("c16-%d.ftrace.ndjson" % i, [json.dumps(e) for e in evs])
            ctx.violation(rp, "a filter denies a key it was built from: %s" % json.dumps(bad), match={"kind": "false-negative"})
        ctx.sample(evs[len(evs) // 2])
    std_cov(ctx, total, "entry sets of 1..50000 entries (sizes 1,2,3,7,8,9,31,100,1000,10000,50000), five key shapes "
                        "(plain, containing '@', binary, 300-byte prefix, 1-2 bytes), 1-4 versions per key: filter.Build then "
                        "Contains for the user key of every entry; and the same sets flushed to a table, handles rebuilt "
                        "by recovery, every stored key looked up; aggregate events validated by TLC against "
                        "TraceFilter.tla; non-trivial = more than one entry")
    ctx.assumptions += ["the property is essentially about a pure function: the model contributes the contract for arbitrary "
                        "hash functions and the ParseKey pairing, the real hashing is exercised on generated sets"]


# --------------------------------------------------------------------------- C11
@check("C11")
def c11(ctx):
    drv = ctx.build()

    def ccfg(w, ml, me, fits, on=()):
        kw = dict(W=w, MAXLEN=ml, MAXENTRIES=me, FITS=models.T if fits else models.F)
        for sname in ("BugLcpAgainstFirst", "BugTombVersionSwapped"):
            kw[sname] = models.T if sname in on else models.F
        return tlc.fill("MC_Codec.cfg.tmpl", **kw)

    for b in ([(2, 3, 2)] if ctx.quick else [(2, 3, 2), (2, 2, 3), (2, 4, 2)]):
        r = ctx.model_check("Codec", ccfg(b[0], b[1], b[2], True), timeout=1800)
        models.expect_ok(ctx, r, "Codec %s" % (b,))
    st = {}
    rr = ctx.model_check("Codec", ccfg(1, 2, 2, False), timeout=600, expect_violation=True)
    models.expect_violation(ctx, rr, "width-limited length fields (D11)")
    st["lengths >= 2^W (defect D11)"] = "RoundTrip"
    for sw, b in (("BugLcpAgainstFirst", (2, 2, 3)), ("BugTombVersionSwapped", (2, 3, 2))):
        rr = ctx.model_check("Codec", ccfg(b[0], b[1], b[2], True, on=(sw,)), timeout=900, expect_violation=True)
        models.expect_violation(ctx, rr, sw)
        st[sw] = "RoundTrip"
    r = ctx.model_check("Pool", tlc.fill("MC_Pool.cfg.tmpl", BugReturnAlias=models.F), timeout=600)
    models.expect_ok(ctx, r, "Pool")
    rr = ctx.model_check("Pool", tlc.fill("MC_Pool.cfg.tmpl", BugReturnAlias=models.T), timeout=600, expect_violation=True)
    models.expect_violation(ctx, rr, "BugReturnAlias")
    st["BugReturnAlias (defect D10)"] = "ResultStable"
    ctx.cov["deviation_switches"] = st
    total = dict(traces=0, events=0, accepted=0, nontrivial=0, known_truncations=0)

    def one(i):
        out = os.path.join(ctx.scratch, "codec-%d" % i)
        rc, o = ctx.drv(drv, ["codec", "-seed", ctx.seed * 10 + i, "-n", 150 if ctx.quick else 600, "-out", out], timeout=1800)
        return i, out, rc, o

    for i, out, rc, o in ctx.par(one, range(2 if ctx.quick else 6), workers=2):
        if rc != 0:
            hf = common.hard_failures(o)
            if hf:
                p = ctx.save_replay("c11-%s-%d.txt" % (hf[0][0], i), [hf[0][1]])
                ctx.violation(p, "%s in the encoders: %s" % hf[0], match={"kind": hf[0][0]})
                continue
            raise Machinery("codec driver failed: " + o[-1500:])
        evs = [json.loads(l) for l in open(os.path.join(out, "traces.ndjson"))]
        keep = []
        for e in evs:
            if not e["equal"] and e["ev"] == "RoundTrip" and e["codec"] in ("Data", "Index") and e["maxlen"] >= 65536:
                total["known_truncations"] += 1
                rp = ctx.save_replay("c11-known-d11.json", e)
                ctx.violation(rp, "truncation", match={"kind": "codec-truncation", "len_ge": 65536})
                continue
            keep.append(e)
        tp = os.path.join(out, "judged.ndjson")
        open(tp, "w").write("\n".join(json.dumps(e) for e in keep) + "\n")
        r = tlc.validate_trace("TraceCodec", open(os.path.join(tlc.SPECS, "TraceCodec.cfg")).read(), tp)
        ctx.states += r["distinct"]
        ctx.transitions += r["states"]
        if r["machinery_error"]:
            raise Machinery("TraceCodec failed to run: " + r["out"][-1200:])
        total["traces"] += len(keep)
        total["events"] += len(evs)
        total["nontrivial"] += sum(1 for e in keep if e["maxlen"] > 1 or e["ev"] == "Stable")
        if r["accepted"]:
            total["accepted"] += len(keep)
        else:
            bad = keep[r["highwater"] - 1]
            rp = ctx.save_replay("c11-%d.ctrace.ndjson" % i, [json.dumps(e) for e in keep])
            ctx.violation(rp, "an encoding does not round-trip / is not stable: %s" % json.dumps(bad), match={"kind": "codec"})
        ctx.sample(keep[len(keep) // 3])
    std_cov(ctx, total, "entry lists generated from the length classes of the format (key/value lengths 0,1,2,15,255,256,300 and "
                        "65534..70000; shared prefix none/partial/full; tombstone; versions 0,1,7,MaxInt64,-1; binary bytes) "
                        "pushed through Data, Index, Footer, Meta, table.Build + recovery-style decode and WAL.Write/Read, "
                        "compared field by field; and result stability: returned slices compared with private copies "
                        "while four goroutines encode and write wal records; judged by TLC against TraceCodec.tla")
    ctx.assumptions += ["byte strings are sampled per length class, not enumerated; TLA+ contributes the case analysis "
                        "(Codec.tla) and the buffer-ownership protocol (Pool.tla), not byte-level reasoning"]


# --------------------------------------------------------------------------- C17
@check("C17")
def c17(ctx):
    drv = ctx.build()
    replays = models.fam_skl(ctx)
    total = dict(traces=0, events=0, accepted=0, nontrivial=0)
    nrep, ndist = 0, 0
    for bi, (b, lines) in enumerate(replays):
        out = os.path.join(ctx.scratch, "skl-%d" % bi)
        os.makedirs(out, exist_ok=True)
        rf = os.path.join(out, "replays.ndjson")
        open(rf, "w").write("\n".join(lines) + "\n")
        rc, o = ctx.drv(drv, ["skl", "-replays", rf, "-maxlevel", b[2], "-K", b[0], "-T", b[1], "-seed", ctx.seed + bi,
                              "-n", 60 if ctx.quick else 600, "-ops", 60, "-out", out], timeout=2400)
        if rc != 0:
            hf = common.hard_failures(o)
            if hf:
                p = ctx.save_replay("c17-%s.txt" % hf[0][0], [hf[0][1]])
                ctx.violation(p, "%s in pkg/skiplist: %s" % hf[0], match={"kind": hf[0][0]})
                continue
            raise Machinery("skl driver failed: " + o[-1500:])
        summ = json.load(open(os.path.join(out, "summary.json")))
        nrep += summ["replays"]
        ndist += summ["distinct_structures"]
        for mm in (summ.get("mismatches") or []):
            p = ctx.save_replay("c17-replay-%d-%d.json" % (bi, len(ctx.violations)), mm)
            ctx.violation(p, "the real skiplist deviates from Skiplist.tla after the operation sequence %s (alphabet %s): %s"
                          % (json.dumps(mm["replay"]["path"]), mm["alphabet"], mm["mismatch"]), match={"kind": "replay"})
        for sm in summ.get("samples", [])[:2]:
            ctx.sample(dict(tlc_transition_replayed=sm))
        # random long sequences judged by TLC against the sorted-map contract
        tp = os.path.join(out, "traces.ndjson")
        cfg = open(os.path.join(tlc.SPECS, "TraceSortedMap.cfg")).read()
        acc, rej = ctx.validate_batch(tp, summ, validator=lambda pth, to: tlc.validate_trace("TraceSortedMap", cfg, pth, timeout=to))
        total["traces"] += summ["traces"]
        total["events"] += summ["events"]
        total["accepted"] += acc
        total["nontrivial"] += summ["traces"]
        for rj in rej:
            i = rj["index"]
            lines2 = ctx.trace_lines(tp, summ, i)
            rp = ctx.save_replay("c17-%s.smtrace.ndjson" % summ["metas"][i]["id"], lines2)
            ctx.violation(rp, "the sorted-map contract rejects the recorded skiplist run %s at event %d: %s" % (
                json.dumps(summ["metas"][i]), rj["rel"], json.dumps(rj["event"])), match={"kind": "trace"})
    total["traces"] += nrep
    total["accepted"] += nrep - sum(1 for v in ctx.violations if "deviates from Skiplist.tla" in v[1])
    total["nontrivial"] += ndist
    total["tlc_transitions_replayed"] = nrep
    total["distinct_structures"] = ndist
    std_cov(ctx, total, "every transition TLC generates for Skiplist.tla (all operation sequences up to the bound, all "
                        "tower heights) is replayed on the real skiplist with scripted heights, on two key alphabets, "
                        "comparing the towers level by level and Get/LowerBound/Scan/All for every probe; plus random "
                        "sequences (maxLevel 1..12, p 0.01..0.99) validated by TLC against TraceSortedMap.tla; "
                        "distinct = distinct tower structures reached + random sequences")


# --------------------------------------------------------------------------- replay
def replay(ctx, path):
    """Re-judges a saved replay file."""
    if path.endswith(".trace.ndjson"):
        meta = json.load(open(path.replace(".trace.ndjson", ".meta.json")))
        n = sum(1 for _ in open(path))
        summ = dict(offsets=[1], workers=meta["workers"], keys=meta["keys"])
        acc, rej = ctx.validate_batch(path, summ, atomic=meta.get("atomic", True), exact=meta.get("exact", True))
        if rej:
            print("VIOLATION property=%s replay=%s" % (ctx.id, path))
            print("  rejected at event %d: %s" % (rej[0]["rel"], json.dumps(rej[0]["event"])))
            return 1
        print("replay accepted (%d events)" % n)
        return 0
    if path.endswith(".fstrace.ndjson"):
        r = tlc.validate_trace("TraceFs", open(os.path.join(tlc.SPECS, "TraceFs.cfg")).read(), path)
        if not r["accepted"]:
            print("VIOLATION property=%s replay=%s" % (ctx.id, path))
            print("  rejected at call %d" % r["highwater"])
            return 1
        print("replay accepted")
        return 0
    if path.endswith(".lktrace.ndjson"):
        cfg = open(os.path.join(tlc.SPECS, "TraceLookup.cfg")).read()
        r = tlc.validate_trace("TraceLookup", cfg, path)
        if not r["accepted"]:
            print("VIOLATION property=%s replay=%s" % (ctx.id, path))
            print("  rejected at event %d" % r["highwater"])
            return 1
        print("replay accepted")
        return 0
    if path.endswith(".smtrace.ndjson"):
        cfg = open(os.path.join(tlc.SPECS, "TraceSortedMap.cfg")).read()
        r = tlc.validate_trace("TraceSortedMap", cfg, path)
        if not r["accepted"]:
            print("VIOLATION property=%s replay=%s" % (ctx.id, path))
            print("  rejected at event %d" % r["highwater"])
            return 1
        print("replay accepted")
        return 0
    if path.endswith(".wmtrace.ndjson"):
        meta = json.load(open(path.replace(".wmtrace.ndjson", ".meta.json")))
        cfg = tlc.fill("TraceWatermark.cfg.tmpl", PROCS=", ".join(map(str, range(1, meta["procs"] + 1))),
                       IDX=", ".join(map(str, range(0, meta["nidx"]))))
        r = tlc.validate_trace("TraceWatermark", cfg, path)
        if not r["accepted"]:
            print("VIOLATION property=%s replay=%s" % (ctx.id, path))
            print("  rejected at event %d" % r["highwater"])
            return 1
        print("replay accepted")
        return 0
    print(open(path).read()[:5000])
    return 0
