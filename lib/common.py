"""Shared machinery of the checks: building the harness from /repo's current tree, running
TLC, looping trace validation past rejections, known findings, evidence, exit codes."""
import bisect, glob, hashlib, json, os, re, shutil, subprocess, sys, tempfile, time
from concurrent.futures import ThreadPoolExecutor

import tlc

VERIF = os.path.dirname(os.path.dirname(os.path.abspath(__file__)))
HARNESS = os.path.join(VERIF, "harness")
BUILD = os.path.join(VERIF, ".build")
REPLAYS = os.path.join(VERIF, "replays")
EVIDENCE = os.path.join(VERIF, "evidence")
NCPU = os.cpu_count() or 4


class Machinery(Exception):
    pass


def go_env():
    env = dict(os.environ)
    env["GOFLAGS"] = "-mod=mod"
    env["GOPROXY"] = "off"
    env.pop("GOTOOLCHAIN", None)
    env.pop("GOSUMDB", None)
    return env


def load_known():
    p = os.path.join(VERIF, "known_findings.json")
    if not os.path.exists(p):
        return []
    return json.load(open(p)).get("findings", [])


class Ctx:
    def __init__(self, pid, tier, seed, keep=False):
        self.id, self.tier, self.seed, self.keep = pid, tier, seed, keep
        self.t0 = time.time()
        self.scratch = tempfile.mkdtemp(prefix="verif-%s-" % pid, dir=tlc.scratch_root())
        self.violations = []      # (replay path, text)
        self.known_hits = []      # text
        self.drift = []
        self.states = 0
        self.transitions = 0
        self.traces_impl = 0
        self.samples = []
        self.cov = {}
        self.assumptions = []
        self.level = "model_checking"
        self.tlc_runs = []
        self.undecided = []
        self.known = [k for k in load_known() if k.get("property") == pid and k.get("status") == "known"]
        os.makedirs(os.path.join(REPLAYS, pid), exist_ok=True)

    quick = property(lambda self: self.tier == "quick")

    # ---------------------------------------------------------------- harness
    def build(self, race=False):
        """Builds the harness against /repo's current working tree (hooks on). For testing the
        machinery against mutated scratch copies, VERIF_REPO=<dir> builds against that tree instead."""
        repo = os.environ.get("VERIF_REPO", "/repo")
        if repo == "/repo":
            os.makedirs(BUILD, exist_ok=True)
            hdir, outdir = HARNESS, BUILD
        else:
            hdir = os.path.join(self.scratch, "harness")
            if not os.path.isdir(hdir):
                shutil.copytree(HARNESS, hdir)
                gm = open(os.path.join(hdir, "go.mod")).read().replace("=> /repo", "=> " + repo)
                open(os.path.join(hdir, "go.mod"), "w").write(gm)
            outdir = self.scratch
        # one binary per check: checks of different properties may run at the same time
        out = os.path.join(outdir, "drv-%s%s" % (self.id, "-race" if race else ""))
        cmd = ["go", "build", "-tags", "verif"] + (["-race"] if race else []) + ["-o", out, "./cmd/drv"]
        # go.sum of the harness must cover what the repository needs
        try:
            shutil.copy(os.path.join(repo, "go.sum"), os.path.join(hdir, "go.sum"))
        except OSError:
            pass
        p = subprocess.run(cmd, cwd=hdir, env=go_env(), stdout=subprocess.PIPE, stderr=subprocess.STDOUT, text=True)
        if p.returncode != 0:
            raise Machinery("harness build failed:\n" + p.stdout[-3000:])
        return out

    def drv(self, binary, args, timeout=1800, env=None):
        e = go_env()
        e["GORACE"] = "halt_on_error=0 exitcode=66"
        if env:
            e.update(env)
        try:
            p = subprocess.run([binary] + [str(a) for a in args], env=e, stdout=subprocess.PIPE,
                               stderr=subprocess.STDOUT, text=True, errors="replace", timeout=timeout)
            return p.returncode, p.stdout
        except subprocess.TimeoutExpired as ex:
            out = ex.stdout if isinstance(ex.stdout, str) else (ex.stdout or b"").decode(errors="replace")
            return 124, out

    def par(self, fn, items, workers=NCPU):
        with ThreadPoolExecutor(max_workers=workers) as ex:
            return list(ex.map(fn, items))

    # ---------------------------------------------------------------- TLC
    def model_check(self, module, cfg_text, workers=None, timeout=1800, extra_args=None, expect_violation=False,
                    env=None):
        """Runs TLC on a model. Returns dict(ok, out, generated, distinct, wall, rc)."""
        wd = tempfile.mkdtemp(prefix="mc-", dir=self.scratch)
        rc, out, wall = tlc._run_tlc(module, cfg_text, wd, workers or NCPU, extra_env=env, timeout=timeout,
                                     extra_args=extra_args, heap="24g")
        gen, dist = tlc.parse_stats(out)
        shutil.rmtree(wd, ignore_errors=True)
        res = dict(rc=rc, out=out, generated=gen, distinct=dist, wall=wall, module=module)
        self.tlc_runs.append(dict(module=module, rc=rc, generated=gen, distinct=dist, wall=round(wall, 1),
                                  expect_violation=expect_violation))
        if rc == 124:
            raise Machinery("TLC timeout on %s" % module)
        if not expect_violation:
            if rc != 0:
                res["ok"] = False
            else:
                res["ok"] = True
            self.states += dist
            self.transitions += gen
        return res

    def model_simulate(self, module, cfg_text, num=20000, depth=100, workers=8, timeout=3000):
        """Random simulation (tlc -simulate) of an instance too large to enumerate: `num` behaviours per worker
        of at most `depth` steps, every invariant evaluated in every state. Returns dict(ok, out, checked, traces)."""
        wd = tempfile.mkdtemp(prefix="sim-", dir=self.scratch)
        rc, out, wall = tlc._run_tlc(module, cfg_text, wd, workers, timeout=timeout, heap="8g",
                                     extra_args=["-simulate", "num=%d" % num, "-depth", str(depth), "-seed", str(self.seed)])
        shutil.rmtree(wd, ignore_errors=True)
        m = re.findall(r"Progress: (\d+) states checked, (\d+) traces generated", out)
        checked, traces = (int(m[-1][0]), int(m[-1][1])) if m else (0, 0)
        self.tlc_runs.append(dict(module=module, mode="simulate", rc=rc, generated=checked, traces=traces, wall=round(wall, 1)))
        if rc == 124:
            raise Machinery("TLC simulation timeout on %s" % module)
        self.transitions += checked
        return dict(rc=rc, out=out, ok=(rc == 0), checked=checked, traces=traces, module=module)

    def validate_batch(self, trace_path, summary, atomic=True, exact=True, timeout=600, max_rejections=4, validator=None):
        """Validates a batch file of traces against AbsTxn, continuing past rejected traces.
        Returns (accepted_count, rejections) with rejections = list of dict(index, line, event)."""
        offsets = summary["offsets"]
        n = len(offsets)
        if n == 0:
            return 0, []
        lines = None
        rejections = []
        start = 0       # first trace (index) not yet judged
        accepted = 0
        path = trace_path
        base_line = 0   # number of lines dropped from the front
        if validator is None:
            def validator(pth, to):
                return tlc.validate_abstxn(pth, summary["workers"], summary["keys"], atomic=atomic, exact=exact,
                                           timeout=to)
        while start < n:
            r = validator(path, timeout)
            self.states += r["distinct"]
            self.transitions += r["states"]
            self.tlc_runs.append(dict(module="Trace", rc=r["rc"], generated=r["states"], distinct=r["distinct"],
                                      wall=round(r["wall"], 1)))
            if r["rc"] == 124:
                # the search did not finish: judge the traces one by one; a single trace that still
                # does not finish is undecided (never a verdict)
                if lines is None:
                    lines = open(trace_path).read().splitlines()
                for i in range(start, n):
                    end = offsets[i + 1] - 1 if i + 1 < n else len(lines)
                    fd, one = tempfile.mkstemp(prefix="one-%d-" % i, suffix=".ndjson", dir=self.scratch)
                    os.close(fd)
                    with open(one, "w") as fh:
                        fh.write("\n".join(lines[offsets[i] - 1:end]) + "\n")
                    r1 = validator(one, 180)
                    self.states += r1["distinct"]
                    self.transitions += r1["states"]
                    if r1["rc"] == 124:
                        self.undecided.append("trace %d of %s: linearization search did not finish" % (i, trace_path))
                    elif r1["machinery_error"]:
                        raise Machinery("trace validation failed to run:\n" + r1["out"][-2000:])
                    elif r1["accepted"]:
                        accepted += 1
                    else:
                        hw = r1["highwater"]
                        ev = json.loads(lines[offsets[i] - 1 + hw - 1]) if hw > 0 else {}
                        rejections.append(dict(index=i, line=offsets[i] - 1 + hw, event=ev, rel=hw))
                return accepted, rejections
            if r["machinery_error"]:
                lp = os.path.join(REPLAYS, self.id, "machinery-tlc.log")
                open(lp, "w").write(r["out"])
                shutil.copy(path, os.path.join(REPLAYS, self.id, "machinery-trace.ndjson"))
                errs = [ln for ln in r["out"].splitlines() if ln.startswith("Error:") or "Attempted" in ln]
                raise Machinery("trace validation failed to run (log: %s): %s" % (lp, " | ".join(errs)[:1500]))
            if r["accepted"]:
                accepted += n - start
                break
            hw = r["highwater"] + base_line          # 1-based line in the original file
            i = bisect.bisect_right(offsets, hw) - 1
            if lines is None:
                lines = open(trace_path).read().splitlines()
            ev = json.loads(lines[hw - 1]) if 0 < hw <= len(lines) else {}
            rejections.append(dict(index=i, line=hw, event=ev, rel=hw - offsets[i]))
            accepted += i - start
            start = i + 1
            if len(rejections) >= max_rejections:
                break          # enough to report; the rest of this batch stays unexamined
            if start >= n:
                break
            base_line = offsets[start] - 1
            fd, path = tempfile.mkstemp(prefix="rest-%d-" % start, suffix=".ndjson", dir=self.scratch)
            os.close(fd)
            with open(path, "w") as fh:
                fh.write("\n".join(lines[base_line:]) + "\n")
        return accepted, rejections

    def trace_lines(self, trace_path, summary, i):
        offsets = summary["offsets"]
        lines = open(trace_path).read().splitlines()
        end = offsets[i + 1] - 1 if i + 1 < len(offsets) else len(lines)
        return lines[offsets[i] - 1:end]

    # ---------------------------------------------------------------- verdicts
    def save_replay(self, name, obj_or_lines):
        p = os.path.join(REPLAYS, self.id, name)
        with open(p, "w") as fh:
            if isinstance(obj_or_lines, (list, tuple)) and obj_or_lines and isinstance(obj_or_lines[0], str):
                fh.write("\n".join(obj_or_lines) + "\n")
            else:
                json.dump(obj_or_lines, fh, indent=1)
        return p

    def violation(self, replay_path, text, match=None):
        """Registers a violation unless it matches a committed known finding."""
        for k in self.known:
            m = k.get("match", {})
            if match is not None and all(match.get(a) == b for a, b in m.items()):
                if k["what"] not in self.known_hits:
                    self.known_hits.append(k["what"])
                return
        self.violations.append((replay_path, text))

    def sample(self, s):
        if len(self.samples) < 6:
            self.samples.append(s)

    def finish(self):
        wall = time.time() - self.t0
        for w in self.known_hits:
            print("KNOWN-FINDING: property=%s %s" % (self.id, w))
        for d in self.drift:
            print("DRIFT property=%s %s" % (self.id, d))
        for p, t in self.violations:
            print("VIOLATION property=%s replay=%s" % (self.id, p))
            print("  " + t.replace("\n", "\n  ")[:3000])
        cov = dict(self.cov)
        cov.setdefault("states", max(self.states, 0))
        cov.setdefault("transitions", max(self.transitions, 0))
        cov.setdefault("traces_validated_against_impl", self.traces_impl)
        cov["samples"] = self.samples or ["(none)"]
        cov["tlc_runs"] = self.tlc_runs
        cov["known_findings_hit"] = self.known_hits
        cov["drift"] = self.drift
        cov["undecided"] = self.undecided
        ev = dict(property_id=self.id, tier=self.tier, seed=self.seed, level=self.level, coverage=cov,
                  assumptions=self.assumptions, wall_s=round(wall, 1), violations=len(self.violations))
        evdir = EVIDENCE
        if os.environ.get("VERIF_REPO", "/repo") != "/repo":
            evdir = os.path.join(tempfile.gettempdir(), "verif-evidence-mut")   # never overwrite real evidence
        os.makedirs(evdir, exist_ok=True)
        with open(os.path.join(evdir, self.id + ".json"), "w") as fh:
            json.dump(ev, fh, indent=1)
        print("property=%s tier=%s seed=%d states=%d transitions=%d traces=%d evaluations=%s violations=%d wall=%.0fs" % (
            self.id, self.tier, self.seed, cov["states"], cov["transitions"], cov["traces_validated_against_impl"],
            cov.get("evaluations"), len(self.violations), wall))
        if self.violations:
            return 1
        if self.undecided:
            for u in self.undecided:
                print("INCONCLUSIVE property=%s %s" % (self.id, u))
            return 2
        return 0

    def cleanup(self):
        if not self.keep:
            shutil.rmtree(self.scratch, ignore_errors=True)


def hard_failures(out):
    """Panics, fatal errors and race reports in the output of a harness process."""
    res = []
    if "WARNING: DATA RACE" in out:
        i = out.index("WARNING: DATA RACE")
        res.append(("race", out[i:i + 3000]))
    m = re.search(r"^(panic:|fatal error:).*", out, re.M)
    if m and "HARNESS-WATCHDOG" in out[:m.start()]:
        m = None      # stacks printed by the harness watchdog, not a panic
    if m:
        text = out[m.start():m.start() + 3000]
        # a panic raised by the harness itself (first non-runtime frame in harness code, or a pure helper
        # of the repository called directly by the harness) is a machinery failure, not a verdict
        frames = [ln.strip() for ln in text.splitlines() if re.match(r"^[\w./*()\[\]{}-]+\(.*\)$", ln.strip())]
        frames = [f for f in frames if not f.startswith(("runtime.", "panic(", "testing."))]
        helper = lambda f: "/originium/types." in f or "/originium/utils." in f
        frames = [f for f in frames if "dbx.quiet.Panicf" not in f]
        harness = lambda f: f.startswith("main.") or "verif/harness" in f
        if frames and (harness(frames[0]) or (helper(frames[0]) and len(frames) > 1 and harness(frames[1]))):
            raise Machinery("the harness itself panicked:\n" + text[:1500])
        res.append(("panic", text))
    return res
