#!/usr/bin/env python3
"""Entry point of every registered check:  ./check <ID> [--tier quick|thorough] [--replay <path>]

Exit 0: the property held on everything explored (KNOWN-FINDING / DRIFT lines possible)
Exit 1: at least one line "VIOLATION property=<id> replay=<path>"
Exit 2: machinery failure / inconclusive (never a verdict)
"""
import argparse, json, os, sys, time, traceback

sys.path.insert(0, os.path.dirname(os.path.abspath(__file__)))
import common
from common import Ctx


def main():
    ap = argparse.ArgumentParser()
    ap.add_argument("id")
    ap.add_argument("--tier", default=os.environ.get("VERIF_TIER", "quick"), choices=["quick", "thorough"])
    ap.add_argument("--replay", default=None)
    ap.add_argument("--keep", action="store_true", help="keep the scratch directory")
    a = ap.parse_args()
    seed = int(os.environ.get("VERIF_SEED", "1") or "1")
    ctx = Ctx(a.id, a.tier, seed, keep=a.keep)
    import props
    fn = props.CHECKS.get(a.id)
    if fn is None:
        print("unknown property", a.id)
        return 2
    try:
        if a.replay:
            rc = props.replay(ctx, a.replay)
        else:
            fn(ctx)
            rc = ctx.finish()
    except common.Machinery as e:
        print("MACHINERY-FAILURE property=%s %s" % (a.id, e))
        ctx.cleanup()
        return 2
    except Exception:
        traceback.print_exc()
        print("MACHINERY-FAILURE property=%s unexpected exception" % a.id)
        ctx.cleanup()
        return 2
    ctx.cleanup()
    return rc


if __name__ == "__main__":
    sys.exit(main())
