"""Turns an `strace -f -y` log of the harness into the event vocabulary of specs/TraceFs.tla."""
import json, os, re

LINE = re.compile(r"^(\d+)\s+(.*)$")


def kind_of(name):
    if name.endswith(".log"):
        return "wal"
    if name.endswith(".db"):
        return "table"
    return "tmp"


def parse(log_path, datadir):
    """Returns a list of events (dicts). Calls are placed at their completion."""
    pending = {}
    events = []
    datadir = datadir.rstrip("/") + "/"

    def base(p):
        return p[len(datadir):] if p.startswith(datadir) else None

    def handle(call):
        m = re.match(r"^(\w+)\((.*)\)\s+=\s+(-?\d+)", call, re.S)
        if not m:
            return
        name, args, ret = m.group(1), m.group(2), int(m.group(3))
        if ret < 0:
            return
        if name in ("write", "pwrite64"):
            fm = re.match(r"^\d+<([^>]*)>,\s*\"((?:[^\"\\]|\\.)*)\"", args)
            if not fm:
                return
            path = fm.group(1)
            if path == "/dev/null":
                txt = fm.group(2)
                if txt.startswith("VERIF-ACK"):
                    events.append(dict(ev="ack", n=int(re.findall(r"\d+", txt)[0])))
                elif txt.startswith("VERIF-RECOVERY"):
                    events.append(dict(ev="phase", p="recovery"))
                elif txt.startswith("VERIF-OPEN"):
                    events.append(dict(ev="phase", p="run"))
                return
            b = base(path)
            if b is not None:
                events.append(dict(ev="write", f=b, n=ret))
        elif name in ("fsync", "fdatasync"):
            fm = re.match(r"^\d+<([^>]*)>", args)
            if fm and base(fm.group(1)) is not None:
                events.append(dict(ev="fsync", f=base(fm.group(1))))
        elif name == "openat":
            fm = re.match(r"^[^,]*,\s*\"([^\"]*)\",\s*([A-Z_|0-9a-zx]+)", args)
            if fm and base(fm.group(1)) is not None and ("O_CREAT" in fm.group(2)):
                b = base(fm.group(1))
                if b and "/" not in b:
                    events.append(dict(ev="create", f=b, kind=kind_of(b), trunc=("O_TRUNC" in fm.group(2))))
        elif name in ("rename", "renameat", "renameat2"):
            ps = re.findall(r"\"([^\"]*)\"", args)
            if len(ps) >= 2 and base(ps[0]) is not None and base(ps[1]) is not None:
                events.append(dict(ev="rename", f=base(ps[0]), f2=base(ps[1]), kind2=kind_of(base(ps[1]))))
        elif name in ("unlink", "unlinkat"):
            ps = re.findall(r"\"([^\"]*)\"", args)
            if ps and base(ps[0]) is not None:
                events.append(dict(ev="unlink", f=base(ps[0])))

    for raw in open(log_path, errors="replace"):
        m = LINE.match(raw.rstrip("\n"))
        if not m:
            continue
        pid, rest = m.group(1), m.group(2)
        if rest.endswith("<unfinished ...>"):
            pending[pid] = rest[:-len("<unfinished ...>")]
            continue
        rm = re.match(r"^<\.\.\. (\w+) resumed>(.*)$", rest, re.S)
        if rm:
            head = pending.pop(pid, rm.group(1) + "(")
            handle(head + rm.group(2))
            continue
        handle(rest)
    # O_CREAT on an existing file without O_TRUNC (wal opened O_APPEND) must not reset it
    out, known = [], set()
    for e in events:
        if e["ev"] == "create":
            if e["f"] in known and not e.pop("trunc", False):
                continue
            e.pop("trunc", None)
            known.add(e["f"])
        elif e["ev"] == "rename":
            known.discard(e["f"])
            known.add(e["f2"])
        elif e["ev"] == "unlink":
            known.discard(e["f"])
        out.append(e)
    return out


def write_trace(events, path):
    full = dict(ev="", f="", f2="", kind="", kind2="", n=0, p="")
    with open(path, "w") as fh:
        fh.write(json.dumps(dict(full, ev="reset")) + "\n")
        for e in events:
            fh.write(json.dumps(dict(full, **e)) + "\n")
    return len(events) + 1
