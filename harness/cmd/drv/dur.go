package main

import (
	"path/filepath"
	"strconv"
	"strings"

	"verif/harness/internal/gate"
	"verif/harness/internal/rec"
)

// DurEvent is one event of the durability-level stream validated by specs/TraceCrash.tla: the
// file-system operations of the engine (completed ones, from fs.post) merged with the committer,
// flusher, compaction, Close and recovery hooks of an uncrashed single-client run. Files are named
// by small integers in creation order (wal files and table files separately), which is how
// Crash.tla names them.
type DurEvent struct {
	Ev   string `json:"ev"`
	Op   string `json:"op"`
	ID   int    `json:"id"`
	Lvl  int    `json:"lvl"`
	Ts   int    `json:"ts"`
	Ks   []int  `json:"ks"`
	Ins  []int  `json:"ins"`
	File string `json:"file"`
}

func durStream(evs []gate.Event) []DurEvent {
	var out []DurEvent
	add := func(e DurEvent) {
		if e.Ks == nil {
			e.Ks = []int{}
		}
		if e.Ins == nil {
			e.Ins = []int{}
		}
		out = append(out, e)
	}
	num := func(x any) int {
		switch v := x.(type) {
		case int:
			return v
		case uint64:
			return int(v)
		case int64:
			return int(v)
		}
		return 0
	}
	walID, tabID := map[string]int{}, map[string]int{}
	nWal, nTab := 0, 0 // names can be reused (a level that was emptied starts at index 0 again)
	activeWal := 0
	ks := map[int]bool{}
	began := false  // a "begin" was emitted for the commit in flight
	opened := false // the first Open has completed (its events are the specification's Init)
	for _, e := range evs {
		switch e.Point {
		case "api":
			a := e.Args[0].(rec.Event)
			switch a.Ev {
			case "BeginResp":
				ks = map[int]bool{}
			case "Put":
				if a.Res == "ok" && a.K > 0 {
					ks[a.K] = true
				}
			case "CommitResp":
				if began && a.Res == "ok" {
					add(DurEvent{Ev: "ack"})
				}
				began = false
			}
		case "cm.decided":
			if !e.Args[1].(bool) {
				var l []int
				for k := range ks {
					l = append(l, k)
				}
				add(DurEvent{Ev: "begin", Ts: num(e.Args[0]), Ks: l})
				began = true
			}
		case "fs.post":
			op, file := e.Args[0].(string), filepath.Base(e.Args[1].(string))
			switch {
			case strings.HasSuffix(file, ".log"):
				if op == "create" {
					nWal++
					walID[file] = nWal
					activeWal = walID[file]
					if !opened {
						continue // the wal of the first Open is wal 1 of Init
					}
					if len(out) > 0 && out[len(out)-1].Ev == "cldone" {
						add(DurEvent{Ev: "reopen"})
					}
				}
				if op == "remove" && walID[file] == activeWal {
					add(DurEvent{Ev: "clstart"}) // Close with an empty memtable deletes the active wal itself
				}
				add(DurEvent{Ev: "wal", Op: op, ID: walID[file], File: file})
			case strings.Contains(file, ".db"):
				final := strings.TrimSuffix(file, ".tmp")
				if op == "create" {
					nTab++
					tabID[final] = nTab
				}
				lvl, _ := strconv.Atoi(strings.SplitN(final, "-", 2)[0])
				add(DurEvent{Ev: "tab", Op: op, ID: tabID[final], Lvl: lvl, File: final})
			}
		case "rec.done":
			if !opened {
				opened = true
				continue
			}
			add(DurEvent{Ev: "rectables"})
			add(DurEvent{Ev: "recdone", Ts: num(e.Args[0])})
		case "cm.applied":
			add(DurEvent{Ev: "applied"})
		case "cm.rotated":
			add(DurEvent{Ev: "rotated"})
		case "cm.enq":
			add(DurEvent{Ev: "enq"})
		case "fl.take":
			add(DurEvent{Ev: "take"})
		case "fl.flushed":
			add(DurEvent{Ev: "flushed"})
		case "lm.compact":
			add(DurEvent{Ev: "cpend"})
		case "fl.compacted":
			add(DurEvent{Ev: "compacted"})
		case "fl.removed.locked":
			add(DurEvent{Ev: "removed"})
		case "cl.enq.pre":
			add(DurEvent{Ev: "clstart"})
			activeWal = 0 // handed to the flusher: its wal is deleted by the flusher
		case "cl.enq":
			add(DurEvent{Ev: "clenq"})
		case "cl.signal":
			add(DurEvent{Ev: "clsignal"})
		case "cl.done":
			add(DurEvent{Ev: "cldone"})
		}
	}
	// a compaction is announced before its first file-system operation: the tables it removes
	// afterwards (up to the lm.compact hook) are its inputs
	var res []DurEvent
	inCp := false
	for i, e := range out {
		switch {
		case e.Ev == "flushed" || e.Ev == "cpend":
			inCp = true
		case e.Ev == "compacted":
			inCp = false
		case inCp && e.Ev == "tab" && e.Op == "create":
			st := DurEvent{Ev: "cpstart", Lvl: e.Lvl, Ks: []int{}, Ins: []int{}}
			for _, f := range out[i+1:] {
				if f.Ev == "cpend" {
					break
				}
				if f.Ev == "tab" && f.Op == "remove" {
					st.Ins = append(st.Ins, f.ID)
				}
			}
			res = append(res, st)
			inCp = false
		}
		res = append(res, e)
	}
	return res
}
