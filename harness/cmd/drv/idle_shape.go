package main

import "verif/harness/internal/dbx"

func idle(st *dbx.Store) bool {
	imm, q, _ := st.DB.VerifShape()
	return imm == 0 && q == 0
}
