package main

import (
	"flag"
	"fmt"
	"math/rand"
	"os"
	"runtime"
	"sync"
	"sync/atomic"
	"time"

	"github.com/B1NARY-GR0UP/originium/pkg/verifhook"

	"verif/harness/internal/dbx"
	"verif/harness/internal/kvmap"
	"verif/harness/internal/rec"
	"verif/harness/internal/txrec"
)

func init() { cmds["conc"] = cmdConc }

// ConcSpec describes one concurrent scenario: several client goroutines running random
// transactions on a few shared keys of one DB handle while the engine rotates, flushes and
// compacts underneath (small thresholds).
type ConcSpec struct {
	ID       string  `json:"id"`
	Seed     int64   `json:"seed"`
	Cfg      CfgJSON `json:"cfg"`
	Alphabet string  `json:"alphabet"`
	NKeys    int     `json:"nkeys"`
	Workers  int     `json:"workers"`
	TxnsPer  int     `json:"txns_per_worker"`
	Profile  string  `json:"profile"` // mixed | rmw | skew | reader | abandon
	Yield    int     `json:"yield"`   // 0..3: how often workers yield/sleep between calls
	Reopen   bool    `json:"reopen"`  // reopen the directory right after Close and read everything
}

type ConcResult struct {
	ID        string `json:"id"`
	Events    int    `json:"events"`
	Commits   int64  `json:"commits"`
	Conflicts int64  `json:"conflicts"`
	Discards  int64  `json:"discards"`
	DBFiles   int    `json:"db_files"`
	Corrupt   int64  `json:"corrupt_values"`
	Watchdog  string `json:"watchdog,omitempty"`
	WalLeft   int    `json:"wal_left"`
	Profile   string `json:"profile"`
}

func genConc(r *rand.Rand, id string, profile string) ConcSpec {
	s := ConcSpec{ID: id, Seed: r.Int63(), Cfg: randCfg(r), NKeys: 2 + r.Intn(3), Workers: 2 + r.Intn(4),
		Profile: profile, Yield: r.Intn(4)}
	s.Alphabet = pick(r, "plain", "adversarial", "binary")
	s.TxnsPer = 6 + r.Intn(10)
	if profile == "" {
		s.Profile = pick(r, "mixed", "mixed", "rmw", "skew", "reader", "abandon")
	}
	if s.Profile == "reader" {
		s.TxnsPer += 10
	}
	if s.Profile == "stress" {
		// writers faster than the flusher: rotation on every commit, queue 0..2, many readers beginning
		s.Cfg.MemtableByteThreshold = 1
		s.Cfg.ImmutableBuffer = pick(r, 0, 0, 1, 2)
		s.Workers = 3 + r.Intn(3)
		s.TxnsPer = 8 + r.Intn(10)
		s.Reopen = true
	}
	return s
}

// runConc executes one scenario and returns the recorded API trace.
func runConc(s ConcSpec, watchdog time.Duration, txr *txrec.Rec) (*rec.Trace, ConcResult) {
	res := ConcResult{ID: s.ID, Profile: s.Profile}
	dir := scratch("conc")
	defer os.RemoveAll(dir)
	km := kvmap.New(s.Alphabet, s.NKeys)
	tr := &rec.Trace{}
	if txr != nil {
		tr.Mirror = txr.API
	}
	st, err := dbx.Open(dir, s.Cfg.Config(), tr, km, true)
	if err != nil {
		res.Watchdog = "open: " + err.Error()
		return tr, res
	}
	var vid atomic.Int64
	var wg sync.WaitGroup
	done := make(chan struct{})
	for w := 1; w <= s.Workers; w++ {
		wg.Add(1)
		go func(w int) {
			defer wg.Done()
			if txr != nil {
				txr.Bind(w)
				defer txrec.Unbind()
			}
			r := rand.New(rand.NewSource(mix(s.Seed, w)))
			c := st.Sess(w)
			pause := func() {
				switch {
				case s.Yield == 0:
				case r.Intn(4) < s.Yield:
					runtime.Gosched()
				case r.Intn(16) < s.Yield:
					time.Sleep(time.Duration(r.Intn(200)) * time.Microsecond)
				}
			}
			get := func(k int) {
				if c.Get(k) == -2 {
					atomic.AddInt64(&res.Corrupt, 1)
				}
			}
			newv := func() int { return int(vid.Add(1)) }
			for i := 0; i < s.TxnsPer; i++ {
				kind := s.Profile
				if kind == "mixed" {
					kind = pick(r, "rmw", "skew", "blind", "scan", "abandon", "rmw", "reader", "wr")
				}
				if kind == "stress" {
					kind = pick(r, "blind", "blind", "rmw", "scan", "scan", "scan")
				}
				if kind == "rmw" && r.Intn(4) == 0 {
					kind = "wr"
				}
				if kind == "reader" && w != 1 && s.Profile == "reader" {
					kind = pick(r, "rmw", "blind", "blind")
				}
				switch kind {
				case "rmw": // read some keys, then write one of the keys read
					c.Begin(true)
					pause()
					k := 1 + r.Intn(s.NKeys)
					get(k)
					if r.Intn(3) == 0 {
						get(1 + r.Intn(s.NKeys))
					}
					pause()
					if r.Intn(6) == 0 {
						c.Put(k, 0)
					} else {
						c.Put(k, newv())
					}
					if r.Intn(3) == 0 {
						get(k) // read after own write: served from the buffer
					}
					pause()
					countCommit(&res, c.Commit())
				case "wr": // write first, then read the same key back (served from the buffer: no store read)
					c.Begin(true)
					k := 1 + r.Intn(s.NKeys)
					if r.Intn(5) == 0 {
						c.Put(k, 0)
					} else {
						c.Put(k, newv())
					}
					pause()
					get(k)
					pause()
					if r.Intn(3) == 0 {
						c.Put(k, newv())
						get(k)
					}
					countCommit(&res, c.Commit())
				case "skew": // read two keys, write the other one
					c.Begin(true)
					a := 1 + r.Intn(s.NKeys)
					b := 1 + (a % s.NKeys)
					get(a)
					pause()
					get(b)
					pause()
					c.Put(pick(r, a, b), newv())
					pause()
					countCommit(&res, c.Commit())
				case "blind": // write only: never refused
					c.Begin(true)
					n := 1 + r.Intn(2)
					for j := 0; j < n; j++ {
						k := 1 + r.Intn(s.NKeys)
						if r.Intn(5) == 0 {
							c.Put(k, 0)
						} else {
							c.Put(k, newv())
						}
						pause()
					}
					countCommit(&res, c.Commit())
				case "scan": // read-only: all keys, twice
					c.Begin(false)
					for k := 1; k <= s.NKeys; k++ {
						get(k)
					}
					pause()
					for k := 1; k <= s.NKeys; k++ {
						get(k)
					}
					if r.Intn(2) == 0 {
						countCommit(&res, c.Commit()) // commit of a read-only txn: ok, no effect
					} else {
						c.Discard()
					}
				case "reader": // long-lived snapshot re-read while others commit, flush, compact
					upd := r.Intn(3) == 0
					c.Begin(upd)
					for round := 0; round < 4+r.Intn(6); round++ {
						for k := 1; k <= s.NKeys; k++ {
							get(k)
						}
						time.Sleep(time.Duration(50+r.Intn(400)) * time.Microsecond)
					}
					if upd && r.Intn(2) == 0 {
						c.Put(1+r.Intn(s.NKeys), newv())
						countCommit(&res, c.Commit())
					} else {
						c.Discard()
					}
				case "abandon": // writes that must leave no trace
					c.Begin(true)
					get(1 + r.Intn(s.NKeys))
					c.Put(1+r.Intn(s.NKeys), newv())
					pause()
					c.Discard()
					atomic.AddInt64(&res.Discards, 1)
					if r.Intn(3) == 0 { // misuse after discard: documented errors, no effect
						c.Put(1+r.Intn(s.NKeys), newv())
						c.Commit()
					}
				}
				pause()
			}
		}(w)
	}
	go func() { wg.Wait(); close(done) }()
	// a hang is "no API event recorded during a whole watchdog period" - a slow machine makes progress
	last := -1
waiting:
	for {
		select {
		case <-done:
			break waiting
		case <-time.After(watchdog):
			if n := tr.Len(); n != last {
				last = n
				continue
			}
			buf := make([]byte, 1<<20)
			n := runtime.Stack(buf, true)
			res.Watchdog = fmt.Sprintf("no call returned for %v\n%s", watchdog, buf[:n])
			res.Events = tr.Len()
			return tr, res
		}
	}
	if txr != nil {
		txr.Bind(1)
		defer txrec.Unbind()
	}
	c := st.Sess(1)
	if s.Profile == "stress" {
		// Close with flushes pending: a burst of rotating commits right before it, no waiting
		for i := 0; i < 2+s.Cfg.ImmutableBuffer; i++ {
			c.Begin(true)
			c.Put(1+i%s.NKeys, int(vid.Add(1)))
			countCommit(&res, c.Commit())
		}
	} else {
		// final state, after the background work has drained
		waitIdle(st, 5*time.Second)
		c.Begin(false)
		for k := 1; k <= s.NKeys; k++ {
			if c.Get(k) == -2 {
				res.Corrupt++
			}
		}
		c.Discard()
	}
	timed := func(what string, f func()) bool {
		fin := make(chan struct{})
		go func() { f(); close(fin) }()
		select {
		case <-fin:
			return true
		case <-time.After(watchdog):
			buf := make([]byte, 1<<20)
			n := runtime.Stack(buf, true)
			res.Watchdog = fmt.Sprintf("%s did not return within %v\n%s", what, watchdog, buf[:n])
			return false
		}
	}
	if !timed("Close", st.Close) {
		res.Events = tr.Len()
		return tr, res
	}
	if s.Reopen {
		// after Close returned the flusher has stopped: no wal file is left, and the directory can be
		// reopened at once with the complete committed state
		_, wal, _, _ := countFiles(dir)
		res.WalLeft = wal
		var st2 *dbx.Store
		ok := timed("Open after Close", func() {
			var err error
			st2, err = dbx.Open(dir, s.Cfg.Config(), tr, km, false)
			if err != nil {
				res.Watchdog = "reopen: " + err.Error()
			}
		})
		if ok && st2 != nil {
			c2 := st2.Sess(1)
			timed("reads after reopen", func() {
				c2.Begin(false)
				for k := 1; k <= s.NKeys; k++ {
					if c2.Get(k) == -2 {
						res.Corrupt++
					}
				}
				c2.Discard()
			})
			timed("Close after reopen", st2.Close)
		}
	}
	db, _, _, _ := countFiles(dir)
	res.DBFiles = db
	res.Events = tr.Len()
	return tr, res
}

// runBirthday: one transaction reads N keys, another commits N other keys in between, then the
// first one writes and commits. The key sets are disjoint, so the contract demands "ok"; with
// N*N well above 2^32 this fails for any conflict fingerprint narrower than about 40 bits.
// Only one representative Get/Put per key class is recorded (class 1 = keys read, class 2 =
// keys written by the other transaction, class 3 = the final write): the classes are disjoint
// sets, which is all the conflict rule looks at.
func runBirthday(n int, seed int64) (*rec.Trace, ConcResult) {
	res := ConcResult{ID: fmt.Sprintf("birthday-%d-%d", n, seed), Profile: "birthday"}
	dir := scratch("bday")
	defer os.RemoveAll(dir)
	km := kvmap.New("plain", 3)
	tr := &rec.Trace{}
	cfg := CfgJSON{SkipListMaxLevel: 12, SkipListP: 0.5, MemtableByteThreshold: 1 << 30, ImmutableBuffer: 2,
		DataBlockByteThreshold: 4096, L0TargetNum: 4, LevelRatio: 4}
	st, err := dbx.Open(dir, cfg.Config(), tr, km, true)
	if err != nil {
		res.Watchdog = "open: " + err.Error()
		return tr, res
	}
	t1 := st.DB.Begin(true)
	tr.Add(rec.Event{Ev: "BeginInv", W: 1, Upd: true})
	tr.Add(rec.Event{Ev: "BeginResp", W: 1})
	found := 0
	for i := 0; i < n; i++ {
		if _, ok := t1.Get(fmt.Sprintf("r:%d:%d", seed, i)); ok {
			found++
		}
	}
	v := 0
	if found > 0 {
		v = -2
	}
	tr.Add(rec.Event{Ev: "Get", W: 1, K: 1, V: v})
	t2 := st.DB.Begin(true)
	tr.Add(rec.Event{Ev: "BeginInv", W: 2, Upd: true})
	tr.Add(rec.Event{Ev: "BeginResp", W: 2})
	for i := 0; i < n; i++ {
		_ = t2.Set(fmt.Sprintf("w:%d:%d", seed, i), []byte("x"))
	}
	tr.Add(rec.Event{Ev: "Put", W: 2, K: 2, V: 1, Res: "ok"})
	tr.Add(rec.Event{Ev: "CommitInv", W: 2})
	r2 := "ok"
	if err := t2.Commit(); err != nil {
		r2 = err.Error()
	}
	tr.Add(rec.Event{Ev: "CommitResp", W: 2, Res: r2})
	_ = t1.Set(fmt.Sprintf("z:%d", seed), []byte("y"))
	tr.Add(rec.Event{Ev: "Put", W: 1, K: 3, V: 2, Res: "ok"})
	tr.Add(rec.Event{Ev: "CommitInv", W: 1})
	r1 := "ok"
	if err := t1.Commit(); err != nil {
		r1 = "conflict"
		res.Conflicts++
	} else {
		res.Commits++
	}
	tr.Add(rec.Event{Ev: "CommitResp", W: 1, Res: r1})
	res.Commits++
	st.Close()
	res.Events = tr.Len()
	res.DBFiles = 1
	return tr, res
}

func countCommit(res *ConcResult, r string) {
	switch r {
	case "ok":
		atomic.AddInt64(&res.Commits, 1)
	case "conflict":
		atomic.AddInt64(&res.Conflicts, 1)
	}
}

func cmdConc(args []string) int {
	fs := flag.NewFlagSet("conc", flag.ExitOnError)
	seed := fs.Int64("seed", 1, "seed")
	n := fs.Int("n", 20, "number of scenarios")
	out := fs.String("out", "", "output directory")
	par := fs.Int("par", 4, "scenarios in parallel")
	profile := fs.String("profile", "", "force a profile")
	only := fs.Int("only", -1, "run only scenario i")
	wd := fs.Duration("watchdog", 60*time.Second, "per-scenario watchdog")
	perturb := fs.Int("perturb", 2, "0..3: seeded random delays at hook points outside the short critical sections")
	impl := fs.Bool("impl", false, "also record the implementation-level stream (API + oracle/commit hooks) for TraceTxn.tla")
	birthday := fs.Int("birthday", 0, "run only the fingerprint birthday scenario with this many keys per side")
	_ = fs.Parse(args)
	mustMkdir(*out)
	if *perturb > 0 {
		installPerturb(*seed, *perturb, *impl)
	} else if *impl {
		verifhook.SetGate(txrec.Hook)
	}
	if *birthday > 0 {
		tr, res := runBirthday(*birthday, *seed)
		w, err := rec.NewWriter(join(*out, "traces.ndjson"))
		if err != nil {
			fmt.Fprintln(os.Stderr, err)
			return 2
		}
		w.WriteTrace(tr.Snapshot())
		_ = w.Close()
		writeJSON(join(*out, "summary.json"), map[string]any{
			"traces": w.Traces, "events": w.Events, "offsets": w.Offsets, "workers": 2, "keys": 3,
			"results": []ConcResult{res}, "specs": []ConcSpec{{ID: res.ID, Profile: "birthday", Workers: 2, NKeys: 3}},
		})
		return 0
	}
	var specs []ConcSpec
	for i := 0; i < *n; i++ {
		r := rand.New(rand.NewSource(mix(*seed, i)))
		specs = append(specs, genConc(r, fmt.Sprintf("conc-%d-%d", *seed, i), *profile))
	}
	if *only >= 0 {
		specs = specs[*only : *only+1]
	}
	results := make([]ConcResult, len(specs))
	traces := make([]*rec.Trace, len(specs))
	txrs := make([]*txrec.Rec, len(specs))
	var wg sync.WaitGroup
	sem := make(chan struct{}, *par)
	for i := range specs {
		wg.Add(1)
		sem <- struct{}{}
		go func(i int) {
			defer wg.Done()
			defer func() { <-sem }()
			if *impl {
				txrs[i] = txrec.New()
			}
			traces[i], results[i] = runConc(specs[i], *wd, txrs[i])
		}(i)
	}
	wg.Wait()
	w, err := rec.NewWriter(join(*out, "traces.ndjson"))
	if err != nil {
		fmt.Fprintln(os.Stderr, err)
		return 2
	}
	maxKeys, maxW := 0, 0
	for i := range specs {
		w.WriteTrace(traces[i].Snapshot())
		maxKeys = max(maxKeys, specs[i].NKeys)
		maxW = max(maxW, specs[i].Workers)
	}
	if err := w.Close(); err != nil {
		fmt.Fprintln(os.Stderr, err)
		return 2
	}
	summ := map[string]any{
		"traces": w.Traces, "events": w.Events, "offsets": w.Offsets,
		"workers": maxW, "keys": maxKeys, "results": results, "specs": specs,
	}
	if *impl {
		iw, err := txrec.NewWriter(join(*out, "impl.ndjson"))
		if err != nil {
			fmt.Fprintln(os.Stderr, err)
			return 2
		}
		var which []int
		for i := range specs {
			if results[i].Watchdog == "" {
				iw.Write(txrs[i].Snapshot())
				which = append(which, i)
			}
		}
		if err := iw.Close(); err != nil {
			fmt.Fprintln(os.Stderr, err)
			return 2
		}
		summ["impl_offsets"], summ["impl_events"], summ["impl_specs"] = iw.Offsets, iw.Events, which
	}
	writeJSON(join(*out, "summary.json"), summ)
	return 0
}

// installPerturb widens race windows: at yield points of the committer and the flusher (never
// inside the oracle mutex, db.mu or levelManager.mu) the calling goroutine sometimes sleeps.
// This only changes the schedule; verdicts never depend on it.
func installPerturb(seed int64, level int, impl bool) {
	var mu sync.Mutex
	r := rand.New(rand.NewSource(mix(seed, 4242)))
	points := map[string]bool{"cm.lock.pre": true, "cm.decided": true, "cm.apply.pre": true, "cm.applied": true, "cm.enq.pre": true,
		"cm.enq": true, "cm.done": true, "fl.take": true, "fl.flushed": true, "fl.compacted": true, "fl.removed": true}
	verifhook.SetGate(func(point string, args ...any) {
		if impl {
			txrec.Hook(point, args...)
		}
		if !points[point] {
			return
		}
		mu.Lock()
		x := r.Intn(100)
		d := time.Duration(50+r.Intn(1500)) * time.Microsecond
		mu.Unlock()
		if x < 8*level {
			time.Sleep(d)
		} else if x < 20*level {
			runtime.Gosched()
		}
	})
}
