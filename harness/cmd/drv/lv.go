package main

import (
	"bufio"
	"encoding/json"
	"flag"
	"fmt"
	"math/rand"
	"os"
	"strings"
	"sync"

	"github.com/B1NARY-GR0UP/originium"
	"github.com/B1NARY-GR0UP/originium/types"
	"verif/harness/internal/dbx"
)

func init() { cmds["lv"] = cmdLv }

type LvVer struct {
	K    int  `json:"k"`
	Ts   int  `json:"ts"`
	Tomb bool `json:"tomb"`
}
type LvExpect struct {
	K     int  `json:"k"`
	Ts    int  `json:"ts"`
	Rts   int  `json:"rts"`
	Rtomb bool `json:"rtomb"`
}
type LvScenario struct {
	Tables [][]LvVer  `json:"tables"`
	Wm     int        `json:"wm"`
	Bs     int        `json:"bs"`
	Expect []LvExpect `json:"expect"`
}

// fixed-length user keys (so that the block threshold can be given in entries), in byte order
var lvAlpha = map[string][]string{
	"plain":       {"", "k1", "k2", "k3", "k4", "k5", "k6"},
	"adversarial": {"", "a!", "a@", "aa", "b!", "b@", "bb"}, // '@' and bytes below it: raw "key@ts" order differs from CompareKeys order
	// variable length, prefix pairs whose next byte sorts below '@' (used by the random runs only)
	"prefix": {"", "a", "a!", "a#", "a@", "a@1", "aa"},
	"long":   {"", strings.Repeat("p", 300) + "1", strings.Repeat("p", 300) + "2", strings.Repeat("p", 300) + "3", strings.Repeat("p", 300) + "4", strings.Repeat("p", 300) + "5", strings.Repeat("p", 300) + "6"},
}

func lvEntry(alpha string, v LvVer) types.Entry {
	val := []byte(fmt.Sprintf("v%d-%02d", v.K, v.Ts))
	if v.Tomb {
		val = []byte("------")[:len(val)]
	}
	return types.Entry{Key: types.KeyWithTs(lvAlpha[alpha][v.K], uint64(v.Ts)), Value: val, Tombstone: v.Tomb, Version: int64(v.Ts)}
}

func sortVers(vs []LvVer) []LvVer {
	out := append([]LvVer(nil), vs...)
	for i := 1; i < len(out); i++ {
		for j := i; j > 0 && (out[j].K < out[j-1].K || (out[j].K == out[j-1].K && out[j].Ts > out[j-1].Ts)); j-- {
			out[j], out[j-1] = out[j-1], out[j]
		}
	}
	return out
}

type lvMismatch struct {
	Phase    string     `json:"phase"` // flush | recover | compact | recover-after-compact
	Property string     `json:"property"`
	Alphabet string     `json:"alphabet"`
	L0       int        `json:"l0"`
	Ratio    int        `json:"ratio"`
	Query    string     `json:"query"`
	Got      string     `json:"got"`
	Want     string     `json:"want"`
	Scenario LvScenario `json:"scenario"`
}

func lookupStr(v *originium.VerifLevels, alpha string, k, ts int) string {
	e, ok := v.Lookup(lvAlpha[alpha][k], uint64(ts))
	if !ok {
		return "none"
	}
	if types.ParseKey(e.Key) != lvAlpha[alpha][k] {
		return "foreign-key:" + e.Key
	}
	want := lvEntry(alpha, LvVer{K: k, Ts: int(types.ParseTs(e.Key)), Tomb: e.Tombstone})
	if string(e.Value) != string(want.Value) || e.Version != want.Version {
		return fmt.Sprintf("corrupt(%q v=%d)", e.Value, e.Version)
	}
	return fmt.Sprintf("%d/%v", types.ParseTs(e.Key), e.Tombstone)
}
func expStr(x LvExpect) string {
	if x.Rts == 0 {
		return "none"
	}
	return fmt.Sprintf("%d/%v", x.Rts, x.Rtomb)
}

// replayLv executes one TLC scenario on a real level manager.
func replayLv(sc LvScenario, alpha string, l0, ratio int) *lvMismatch {
	dir := scratch("lv")
	defer os.RemoveAll(dir)
	esize := len(lvEntry(alpha, LvVer{K: 1, Ts: 1}).Key) + 6 + 1
	v := originium.NewVerifLevels(dir, l0, ratio, sc.Bs*esize-1, uint64(sc.Wm))
	defer v.Stop()
	for _, tb := range sc.Tables {
		var es []types.Entry
		for _, x := range sortVers(tb) {
			es = append(es, lvEntry(alpha, x))
		}
		if err := v.Flush(es); err != nil {
			return &lvMismatch{Phase: "flush", Property: "C10", Alphabet: alpha, Got: err.Error(), Scenario: sc}
		}
	}
	check := func(phase, prop string, minTs int) *lvMismatch {
		for _, x := range sc.Expect {
			if x.Ts < minTs {
				continue
			}
			if got := lookupStr(v, alpha, x.K, x.Ts); got != expStr(x) {
				return &lvMismatch{Phase: phase, Property: prop, Alphabet: alpha, L0: l0, Ratio: ratio,
					Query: fmt.Sprintf("%d@%d", x.K, x.Ts), Got: got, Want: expStr(x), Scenario: sc}
			}
		}
		return nil
	}
	if m := check("flush", "C10", 0); m != nil {
		return m
	}
	v.Recover()
	if m := check("recover", "C10", 0); m != nil {
		return m
	}
	v.CheckAndCompact()
	if m := check("compact", "C09", sc.Wm); m != nil {
		return m
	}
	v.CheckAndCompact() // cascade
	if m := check("compact", "C09", sc.Wm); m != nil {
		return m
	}
	v.Recover()
	if m := check("recover-after-compact", "C09", sc.Wm); m != nil {
		return m
	}
	return nil
}

// ---- random scenarios recorded for TraceLookup.tla
type LkEvent struct {
	Ev    string   `json:"ev"`
	Vers  [][3]int `json:"vers,omitempty"`
	Wm    int      `json:"wm"`
	K     int      `json:"k"`
	Ts    int      `json:"ts"`
	Found bool     `json:"found"`
	Rts   int      `json:"rts"`
	Rtomb bool     `json:"rtomb"`
}

func randomLv(r *rand.Rand) ([]LkEvent, map[string]any, string) {
	alpha := pick(r, "plain", "adversarial", "long", "prefix", "prefix")
	K, T := 2+r.Intn(5), 3+r.Intn(7)
	l0, ratio := 1+r.Intn(3), 1+r.Intn(3)
	block := pick(r, 1, 30, 80, 400, 4096)
	dir := scratch("lvr")
	defer os.RemoveAll(dir)
	wm := 0
	v := originium.NewVerifLevels(dir, l0, ratio, block, 0)
	defer func() { v.Stop() }()
	var ev []LkEvent
	have := map[[2]int]bool{} // version -> tomb fixed once chosen
	tombOf := map[[2]int]bool{}
	lookups := func() {
		for k := 1; k <= K; k++ {
			for ts := 0; ts <= T+1; ts++ {
				if ts < wm && r.Intn(3) > 0 {
					continue
				}
				e, ok := v.Lookup(lvAlpha[alpha][k], uint64(ts))
				x := LkEvent{Ev: "Lookup", K: k, Ts: ts, Found: ok}
				if ok {
					x.Rts, x.Rtomb = int(types.ParseTs(e.Key)), e.Tombstone
					if types.ParseKey(e.Key) != lvAlpha[alpha][k] {
						x.Rts = -1
					}
				}
				ev = append(ev, x)
			}
		}
	}
	rounds := 2 + r.Intn(6)
	narrow := r.Intn(2) == 0
	if narrow {
		rounds += 4
	}
	for i := 0; i < rounds; i++ {
		// flush a table
		var vs []LvVer
		n := 1 + r.Intn(K*2)
		if narrow {
			n = 1 + r.Intn(3) // narrow tables: partial overlaps, tables left behind by a compaction
		}
		seen := map[[2]int]bool{}
		for j := 0; j < n; j++ {
			id := [2]int{1 + r.Intn(K), 1 + r.Intn(T)}
			if seen[id] {
				continue
			}
			seen[id] = true
			if !have[id] {
				have[id] = true
				tombOf[id] = r.Intn(4) == 0
			}
			vs = append(vs, LvVer{K: id[0], Ts: id[1], Tomb: tombOf[id]})
		}
		var es []types.Entry
		fe := LkEvent{Ev: "Flush"}
		for _, x := range sortVers(vs) {
			es = append(es, lvEntry(alpha, x))
			t := 0
			if x.Tomb {
				t = 1
			}
			fe.Vers = append(fe.Vers, [3]int{x.K, x.Ts, t})
		}
		if err := v.Flush(es); err != nil {
			return ev, nil, "flush failed: " + err.Error()
		}
		ev = append(ev, fe)
		if r.Intn(3) > 0 {
			lookups() // also warms whatever the level manager may cache about the files it has now
		}
		switch r.Intn(5) {
		case 0, 1:
			if r.Intn(2) == 0 {
				wm = max(wm, r.Intn(T+1))
				v.SetWatermark(uint64(wm))
			}
			ev = append(ev, LkEvent{Ev: "Compact", Wm: wm})
			v.CheckAndCompact()
			lookups()
		case 2:
			ev = append(ev, LkEvent{Ev: "Compact", Wm: wm})
			v.CompactL0()
			if r.Intn(2) == 0 {
				v.CompactLN(1)
			}
			lookups()
		case 3:
			ev = append(ev, LkEvent{Ev: "Recover"})
			v.Recover()
			lookups()
		}
	}
	lookups()
	return ev, map[string]any{"alphabet": alpha, "keys": K, "versions": T, "l0": l0, "ratio": ratio, "block": block, "rounds": rounds,
		"levels": v.Tables()}, ""
}

func cmdLv(args []string) int {
	fs := flag.NewFlagSet("lv", flag.ExitOnError)
	scen := fs.String("scenarios", "", "file with SCENARIO json lines exported by TLC (MC_Levels)")
	seed := fs.Int64("seed", 1, "")
	n := fs.Int("n", 100, "random scenarios")
	out := fs.String("out", "", "output directory")
	par := fs.Int("par", 16, "")
	_ = fs.Parse(args)
	mustMkdir(*out)
	dbx.Quiet()
	summary := map[string]any{}
	if *scen != "" {
		f, err := os.Open(*scen)
		if err != nil {
			fmt.Fprintln(os.Stderr, err)
			return 2
		}
		var scs []LvScenario
		sc := bufio.NewScanner(f)
		sc.Buffer(make([]byte, 1<<20), 1<<26)
		for sc.Scan() {
			var s LvScenario
			if json.Unmarshal([]byte(sc.Text()), &s) == nil && len(s.Tables) > 0 {
				scs = append(scs, s)
			}
		}
		f.Close()
		var mu sync.Mutex
		var bad []lvMismatch
		total, multi := 0, 0
		var wg sync.WaitGroup
		sem := make(chan struct{}, *par)
		for i := range scs {
			wg.Add(1)
			sem <- struct{}{}
			go func(i int) {
				defer wg.Done()
				defer func() { <-sem }()
				alphas := []string{"plain", "adversarial"}
				geos := [][2]int{{1, 1}}
				if i%4 == 0 {
					geos = append(geos, [2]int{1, 2}, [2]int{2, 1})
				}
				for _, a := range alphas {
					for _, g := range geos {
						m := replayLv(scs[i], a, g[0], g[1])
						mu.Lock()
						total++
						if m != nil && len(bad) < 30 {
							bad = append(bad, *m)
						}
						mu.Unlock()
					}
				}
			}(i)
			if len(scs[i].Tables) > 1 || len(scs[i].Tables[0]) > 1 {
				multi++
			}
		}
		wg.Wait()
		summary["replays"] = total
		summary["scenarios"] = len(scs)
		summary["nontrivial"] = multi
		summary["mismatches"] = bad
		if len(scs) > 0 {
			summary["samples"] = []LvScenario{scs[len(scs)/2], scs[len(scs)-1]}
		}
	}
	f, _ := os.Create(join(*out, "traces.ndjson"))
	bw := bufio.NewWriter(f)
	enc := json.NewEncoder(bw)
	offsets := []int{}
	var metas []map[string]any
	var errs []string
	line := 0
	type res struct {
		ev   []LkEvent
		meta map[string]any
		err  string
	}
	results := make([]res, *n)
	var wg sync.WaitGroup
	sem := make(chan struct{}, *par)
	for i := 0; i < *n; i++ {
		wg.Add(1)
		sem <- struct{}{}
		go func(i int) {
			defer wg.Done()
			defer func() { <-sem }()
			r := rand.New(rand.NewSource(mix(*seed, i)))
			ev, meta, e := randomLv(r)
			results[i] = res{ev, meta, e}
		}(i)
	}
	wg.Wait()
	for i := 0; i < *n; i++ {
		offsets = append(offsets, line+1)
		_ = enc.Encode(LkEvent{Ev: "Reset"})
		line++
		for _, e := range results[i].ev {
			_ = enc.Encode(e)
			line++
		}
		m := results[i].meta
		if m == nil {
			m = map[string]any{}
		}
		m["id"] = fmt.Sprintf("lv-%d-%d", *seed, i)
		metas = append(metas, m)
		if results[i].err != "" {
			errs = append(errs, results[i].err)
		}
	}
	bw.Flush()
	f.Close()
	summary["traces"] = *n
	summary["events"] = line
	summary["offsets"] = offsets
	summary["metas"] = metas
	summary["errors"] = errs
	writeJSON(join(*out, "summary.json"), summary)
	return 0
}
