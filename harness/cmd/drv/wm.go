package main

import (
	"bufio"
	"context"
	"encoding/json"
	"flag"
	"fmt"
	"math/rand"
	"os"
	"sync"
	"sync/atomic"
	"time"

	"github.com/B1NARY-GR0UP/originium/pkg/verifhook"
	"github.com/B1NARY-GR0UP/originium/pkg/watermark"
)

func init() { cmds["wm"] = cmdWm }

// events in the vocabulary of specs/TraceWatermark.tla
type WmEvent struct {
	Ev   string `json:"ev"`
	G    int    `json:"g"`
	Kind string `json:"kind"`
	Ts   int    `json:"ts"`
	Res  string `json:"res"`
	V    int    `json:"v"`
}

type wmTrace struct {
	mu sync.Mutex
	ev []WmEvent
}

func (t *wmTrace) add(e WmEvent) {
	t.mu.Lock()
	t.ev = append(t.ev, e)
	t.mu.Unlock()
}

// addObs reads DoneUntil under the recorder lock so that observations are recorded in the
// order in which they were made.
func (t *wmTrace) addObs(w *watermark.WaterMark, ev string) int {
	t.mu.Lock()
	v := int(w.DoneUntil())
	t.ev = append(t.ev, WmEvent{Ev: ev, V: v})
	t.mu.Unlock()
	return v
}

// per-watermark consumer progress as reported by the wm.process hook
type wmProgress struct {
	mu    sync.Mutex
	count map[string]int
	maxDu map[string]uint64
}

var wmProg = &wmProgress{count: map[string]int{}, maxDu: map[string]uint64{}}

func installWmHook() {
	verifhook.SetGate(func(point string, args ...any) {
		if point != "wm.process" {
			return
		}
		id := fmt.Sprintf("%p", args[0])
		wmProg.mu.Lock()
		wmProg.count[id]++
		if d := args[3].(uint64); d > wmProg.maxDu[id] {
			wmProg.maxDu[id] = d
		}
		wmProg.mu.Unlock()
	})
}

// reset forgets what an earlier WaterMark at the same address reported (addresses are reused).
func (p *wmProgress) reset(w *watermark.WaterMark) {
	id := fmt.Sprintf("%p", w)
	p.mu.Lock()
	delete(p.count, id)
	delete(p.maxDu, id)
	p.mu.Unlock()
}

func (p *wmProgress) get(w *watermark.WaterMark) (int, uint64) {
	id := fmt.Sprintf("%p", w)
	p.mu.Lock()
	defer p.mu.Unlock()
	return p.count[id], p.maxDu[id]
}

type WmCall struct {
	Kind string `json:"kind"` // b | d | w | o (observe)
	Ts   int    `json:"ts"`
}

type WmScenario struct {
	ID    string     `json:"id"`
	Mode  string     `json:"mode"` // seq | conc
	Procs int        `json:"procs"`
	NIdx  int        `json:"nidx"`
	Calls [][]WmCall `json:"calls"` // per client
	Seed  int64      `json:"seed"`
}

type WmResult struct {
	ID      string `json:"id"`
	Events  int    `json:"events"`
	Marks   int    `json:"marks"`
	Waits   int    `json:"waits"`
	FinalDu int    `json:"final_du"`
	Stuck   string `json:"stuck,omitempty"`
	Skipped bool   `json:"skipped,omitempty"`
}

var wmStuck atomic.Int32

// runWm executes a scenario on a fresh real WaterMark.
func runWm(s WmScenario) ([]WmEvent, WmResult) {
	res := WmResult{ID: s.ID}
	w := watermark.New()
	wmProg.reset(w)
	defer stopWm(w)
	tr := &wmTrace{}
	var marks, waits int
	var cmu sync.Mutex
	type pendingWait struct {
		g      int
		ts     int
		cancel context.CancelFunc
		done   chan struct{}

		cancelled bool
	}
	var pw []*pendingWait
	var wg sync.WaitGroup
	// per client: 0 = still issuing calls, 1 = inside its WaitForMark (registered in pw), 2 = finished
	state := make([]int, s.Procs+1)
	setState := func(g, v int) { cmu.Lock(); state[g] = v; cmu.Unlock() }
	client := func(g int, calls []WmCall, r *rand.Rand) {
		defer wg.Done()
		defer setState(g, 2)
		for _, c := range calls {
			switch c.Kind {
			case "b", "d":
				tr.add(WmEvent{Ev: "Inv", G: g, Kind: c.Kind, Ts: c.Ts})
				if c.Kind == "b" {
					w.Begin(uint64(c.Ts))
				} else {
					w.Done(uint64(c.Ts))
				}
				tr.add(WmEvent{Ev: "Ret", G: g, Res: "nil"})
				cmu.Lock()
				marks++
				cmu.Unlock()
			case "o":
				tr.addObs(w, "Obs")
			case "x": // the context of the oldest parked wait ends now; the calls after it still have to work
				cmu.Lock()
				var victim *pendingWait
				for _, p := range pw {
					select {
					case <-p.done:
					default:
						if victim == nil && !p.cancelled {
							victim = p
						}
					}
				}
				if victim != nil {
					victim.cancelled = true
				}
				cmu.Unlock()
				if victim != nil {
					tr.add(WmEvent{Ev: "Cancel", G: victim.g})
					victim.cancel()
					select {
					case <-victim.done:
					case <-time.After(30 * time.Second):
					}
				}
			case "w":
				ctx, cancel := context.WithCancel(context.Background())
				p := &pendingWait{g: g, ts: c.Ts, cancel: cancel, done: make(chan struct{})}
				cmu.Lock()
				pw = append(pw, p)
				waits++
				cmu.Unlock()
				tr.add(WmEvent{Ev: "Inv", G: g, Kind: "w", Ts: c.Ts})
				setState(g, 1)
				err := w.WaitForMark(ctx, uint64(c.Ts))
				setState(g, 0)
				r := "nil"
				if err != nil {
					r = "ctx"
				}
				tr.add(WmEvent{Ev: "Ret", G: g, Res: r})
				close(p.done)
			}
			if s.Mode == "conc" && r.Intn(4) == 0 {
				time.Sleep(time.Duration(r.Intn(100)) * time.Microsecond)
			}
		}
	}
	// clients whose script contains a wait may block until the harness cancels: give every wait its
	// own goroutine-client in seq mode too (the issuing order is still the script order)
	for g := 1; g <= s.Procs; g++ {
		wg.Add(1)
		go client(g, s.Calls[g-1], rand.New(rand.NewSource(mix(s.Seed, g))))
		if s.Mode == "seq" {
			// sequential issue: wait until this client has finished or is parked in a wait
			waitClient(&wg, tr, g, s.Calls[g-1], w)
			for _, c := range s.Calls[g-1] {
				if c.Kind == "x" { // a cancelling client is done when the cancelled wait has returned
					for i := 0; i < 700000; i++ {
						cmu.Lock()
						fin := state[g] == 2
						cmu.Unlock()
						if fin {
							break
						}
						time.Sleep(50 * time.Microsecond)
					}
					break
				}
			}
		}
	}
	// quiesce: all Begin/Done calls returned => wait until the consumer has taken every mark
	waitAll := make(chan struct{})
	go func() { wg.Wait(); close(waitAll) }()
	deadline := time.Now().Add(30 * time.Second)
	for {
		cmu.Lock()
		m := marks
		expect := 0
		for _, cs := range s.Calls {
			for _, c := range cs {
				if c.Kind == "b" || c.Kind == "d" {
					expect++
				}
			}
		}
		cmu.Unlock()
		n, _ := wmProg.get(w)
		blocked := false
		select {
		case <-waitAll:
		default:
			blocked = true
		}
		// every Begin/Done call has returned and every client is finished or sits in a wait
		cmu.Lock()
		settled := true
		for g := 1; g <= s.Procs; g++ {
			if state[g] == 0 {
				settled = false
			}
		}
		cmu.Unlock()
		_ = blocked
		if m == expect && settled && n >= m {
			break
		}
		if time.Now().After(deadline) {
			res.Stuck = fmt.Sprintf("marks sent %d of %d, processed %d", m, expect, n)
			break
		}
		time.Sleep(50 * time.Microsecond)
	}
	_, fin := wmProg.get(w)
	for i := 0; i < 600000 && w.DoneUntil() < fin; i++ {
		time.Sleep(50 * time.Microsecond)
	}
	// waits at or below the mark must return by themselves
	du := w.DoneUntil()
	cmu.Lock()
	pending := append([]*pendingWait(nil), pw...)
	cmu.Unlock()
	for _, p := range pending {
		if uint64(p.ts) <= du {
			select {
			case <-p.done:
			case <-time.After(30 * time.Second):
			}
		}
	}
	res.FinalDu = tr.addObs(w, "Quiesce")
	// end the remaining waits through their contexts
	for _, p := range pending {
		select {
		case <-p.done:
			continue
		default:
		}
		tr.add(WmEvent{Ev: "Cancel", G: p.g})
		p.cancel()
		select {
		case <-p.done:
		case <-time.After(30 * time.Second):
			res.Stuck += fmt.Sprintf(" wait of client %d did not return after cancel", p.g)
		}
	}
	select {
	case <-waitAll:
	case <-time.After(30 * time.Second):
		res.Stuck += " clients did not finish"
	}
	cmu.Lock()
	res.Marks, res.Waits = marks, waits
	cmu.Unlock()
	tr.mu.Lock()
	ev := append([]WmEvent(nil), tr.ev...)
	tr.mu.Unlock()
	res.Events = len(ev)
	return ev, res
}

// waitClient (seq mode): returns when client g has recorded the return of all its calls, or is
// inside a WaitForMark (its Inv is recorded and the call did not return within a short grace period).
func waitClient(wg *sync.WaitGroup, tr *wmTrace, g int, calls []WmCall, w *watermark.WaterMark) {
	need := 0
	for _, c := range calls {
		if c.Kind != "o" && c.Kind != "x" {
			need++
		}
	}
	start := time.Now()
	for {
		tr.mu.Lock()
		inv, ret := 0, 0
		lastWait := false
		for _, e := range tr.ev {
			if e.G != g {
				continue
			}
			if e.Ev == "Inv" {
				inv++
				lastWait = e.Kind == "w"
			} else if e.Ev == "Ret" {
				ret++
			}
		}
		tr.mu.Unlock()
		if ret >= need {
			return
		}
		if inv > ret && lastWait && time.Since(start) > 2*time.Millisecond {
			return // parked in a wait: the script goes on with the next client
		}
		if time.Since(start) > 5*time.Second {
			return
		}
		time.Sleep(20 * time.Microsecond)
	}
}

// runStampede: many goroutines wait for the same index and read DoneUntil immediately after
// WaitForMark returned nil. The trace keeps one representative waiter (client 2) with the
// smallest value any waiter observed: every waiter individually must see DoneUntil >= ts.
func runStampede(id string, n int, ts int) ([]WmEvent, WmResult) {
	w := watermark.New()
	wmProg.reset(w)
	defer stopWm(w)
	res := WmResult{ID: id, Waits: n, Marks: 2}
	ev := []WmEvent{{Ev: "Inv", G: 1, Kind: "b", Ts: ts}}
	w.Begin(uint64(ts))
	ev = append(ev, WmEvent{Ev: "Ret", G: 1, Res: "nil"}, WmEvent{Ev: "Inv", G: 2, Kind: "w", Ts: ts})
	var wg sync.WaitGroup
	seen := make([]int, n)
	errs := make([]error, n)
	started := make(chan struct{}, n)
	for i := 0; i < n; i++ {
		wg.Add(1)
		go func(i int) {
			defer wg.Done()
			ctx, cancel := context.WithTimeout(context.Background(), 20*time.Second)
			defer cancel()
			started <- struct{}{}
			errs[i] = w.WaitForMark(ctx, uint64(ts))
			seen[i] = int(w.DoneUntil())
		}(i)
	}
	for i := 0; i < n; i++ {
		<-started
	}
	time.Sleep(2 * time.Millisecond)
	ev = append(ev, WmEvent{Ev: "Inv", G: 1, Kind: "d", Ts: ts})
	w.Done(uint64(ts))
	ev = append(ev, WmEvent{Ev: "Ret", G: 1, Res: "nil"})
	wg.Wait()
	vmin := seen[0]
	for i := range seen {
		if errs[i] != nil {
			res.Stuck = "a waiter did not return although the mark reached its index"
		}
		if seen[i] < vmin {
			vmin = seen[i]
		}
	}
	ev = append(ev, WmEvent{Ev: "Ret", G: 2, Res: "nil"}, WmEvent{Ev: "Obs", V: vmin}, WmEvent{Ev: "Quiesce", V: int(w.DoneUntil())})
	res.FinalDu = int(w.DoneUntil())
	res.Events = len(ev)
	return ev, res
}

func genWmScenario(r *rand.Rand, id string, mode string) WmScenario {
	s := WmScenario{ID: id, Mode: mode, Seed: r.Int63()}
	s.NIdx = 3 + r.Intn(3)
	if mode == "seq" {
		// one call per client (clients = positions of the script), so that waits can stay parked
		n := 3 + r.Intn(8)
		s.Procs = n
		open := []int{}
		for i := 0; i < n; i++ {
			var c WmCall
			x := r.Intn(11)
			switch {
			case x == 10: // the context of the oldest parked wait ends
				c = WmCall{Kind: "x"}
			case x < 4:
				c = WmCall{Kind: "b", Ts: r.Intn(s.NIdx)}
				open = append(open, c.Ts)
			case x < 7 && len(open) > 0:
				j := r.Intn(len(open))
				c = WmCall{Kind: "d", Ts: open[j]}
				open = append(open[:j], open[j+1:]...)
			case x < 8:
				c = WmCall{Kind: "d", Ts: r.Intn(s.NIdx)} // Done without Begin (recovery idiom)
			default:
				c = WmCall{Kind: "w", Ts: r.Intn(s.NIdx)}
			}
			s.Calls = append(s.Calls, []WmCall{c, {Kind: "o"}})
		}
		return s
	}
	s.Procs = 2 + r.Intn(3)
	for g := 0; g < s.Procs; g++ {
		var cs []WmCall
		open := []int{}
		n := 4 + r.Intn(10)
		for i := 0; i < n; i++ {
			x := r.Intn(12)
			switch {
			case x < 4:
				t := r.Intn(s.NIdx)
				cs = append(cs, WmCall{Kind: "b", Ts: t})
				open = append(open, t)
			case x < 8 && len(open) > 0:
				j := r.Intn(len(open))
				cs = append(cs, WmCall{Kind: "d", Ts: open[j]})
				open = append(open[:j], open[j+1:]...)
			case x < 9:
				cs = append(cs, WmCall{Kind: "d", Ts: r.Intn(s.NIdx)})
			case x < 10 && i == n-1:
				cs = append(cs, WmCall{Kind: "w", Ts: r.Intn(s.NIdx)}) // a wait is the last call of a client
			default:
				cs = append(cs, WmCall{Kind: "o"})
			}
		}
		s.Calls = append(s.Calls, cs)
	}
	return s
}

func cmdWm(args []string) int {
	fs := flag.NewFlagSet("wm", flag.ExitOnError)
	seed := fs.Int64("seed", 1, "seed")
	n := fs.Int("n", 100, "number of scenarios")
	mode := fs.String("mode", "seq", "seq | conc")
	out := fs.String("out", "", "output directory")
	par := fs.Int("par", 8, "scenarios in parallel")
	file := fs.String("scenarios", "", "ndjson file with scenarios (e.g. exported by TLC)")
	_ = fs.Parse(args)
	mustMkdir(*out)
	installWmHook()
	var scen []WmScenario
	if *file != "" {
		f, err := os.Open(*file)
		if err != nil {
			fmt.Fprintln(os.Stderr, err)
			return 2
		}
		dec := json.NewDecoder(f)
		for dec.More() {
			var s WmScenario
			if dec.Decode(&s) != nil {
				break
			}
			scen = append(scen, s)
		}
		f.Close()
	} else {
		for i := 0; i < *n; i++ {
			r := rand.New(rand.NewSource(mix(*seed, i)))
			scen = append(scen, genWmScenario(r, fmt.Sprintf("wm-%s-%d-%d", *mode, *seed, i), *mode))
		}
	}
	if *mode == "stampede" {
		scen = scen[:0]
		for i := 0; i < *n; i++ {
			scen = append(scen, WmScenario{ID: fmt.Sprintf("wm-stampede-%d-%d", *seed, i), Mode: "stampede", Procs: 2, NIdx: 4})
		}
		*par = 1
	}
	evs := make([][]WmEvent, len(scen))
	results := make([]WmResult, len(scen))
	var wg sync.WaitGroup
	sem := make(chan struct{}, *par)
	for i := range scen {
		wg.Add(1)
		sem <- struct{}{}
		go func(i int) {
			defer wg.Done()
			defer func() { <-sem }()
			if wmStuck.Load() >= 3 {
				// a watermark that stops moving makes every further scenario wait out its time limits:
				// three stuck scenarios are reported, the rest is not run
				results[i] = WmResult{ID: scen[i].ID, Skipped: true}
				return
			}
			defer func() {
				if results[i].Stuck != "" {
					wmStuck.Add(1)
				}
			}()
			if scen[i].Mode == "stampede" {
				evs[i], results[i] = runStampede(scen[i].ID, 400, 1+i%3)
				return
			}
			evs[i], results[i] = runWm(scen[i])
		}(i)
	}
	wg.Wait()
	f, _ := os.Create(join(*out, "traces.ndjson"))
	bw := bufio.NewWriter(f)
	enc := json.NewEncoder(bw)
	offsets := []int{}
	line := 0
	maxP, maxI := 0, 0
	for i := range scen {
		offsets = append(offsets, line+1)
		_ = enc.Encode(WmEvent{Ev: "Reset"})
		line++
		for _, e := range evs[i] {
			_ = enc.Encode(e)
			line++
		}
		maxP = max(maxP, scen[i].Procs)
		maxI = max(maxI, scen[i].NIdx)
	}
	bw.Flush()
	f.Close()
	writeJSON(join(*out, "summary.json"), map[string]any{"traces": len(scen), "events": line, "offsets": offsets,
		"procs": maxP, "nidx": maxI, "results": results, "scenarios": scen})
	return 0
}

// stopWm: Stop waits for the consumer goroutine; a consumer that is blocked for good (which the
// scenario has then already reported as stuck) must not take the driver with it.
func stopWm(w *watermark.WaterMark) {
	done := make(chan struct{})
	go func() { w.Stop(); close(done) }()
	select {
	case <-done:
	case <-time.After(10 * time.Second):
	}
}
