package main

import (
	"time"

	"verif/harness/internal/dbx"
)

// waitIdle steers (never judges): wait until the flush queue is drained and no immutable
// memtable is left, so that later reads are served from tables.
func waitIdle(st *dbx.Store, max time.Duration) bool {
	deadline := time.Now().Add(max)
	for time.Now().Before(deadline) {
		if idle(st) {
			return true
		}
		time.Sleep(200 * time.Microsecond)
	}
	return false
}
