// Command drv is the conformance harness: it drives the real originium code and records
// what it did in the vocabulary of the TLA+ specifications under /verif/specs.
package main

import (
	"fmt"
	"os"
	"runtime/pprof"
)

var cmds = map[string]func(args []string) int{}

func main() {
	if len(os.Args) < 2 {
		fmt.Fprintln(os.Stderr, "usage: drv <cmd> [flags]")
		os.Exit(2)
	}
	f, ok := cmds[os.Args[1]]
	if !ok {
		fmt.Fprintln(os.Stderr, "unknown command", os.Args[1])
		os.Exit(2)
	}
	if p := os.Getenv("DRV_CPUPROFILE"); p != "" {
		pf, _ := os.Create(p)
		_ = pprof.StartCPUProfile(pf)
		rc := f(os.Args[2:])
		pprof.StopCPUProfile()
		pf.Close()
		os.Exit(rc)
	}
	os.Exit(f(os.Args[2:]))
}
