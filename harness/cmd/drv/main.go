// Command drv is the conformance harness: it drives the real originium code and records
// what it did in the vocabulary of the TLA+ specifications under /verif/specs.
package main

import (
	"fmt"
	"os"
)

var cmds = map[string]func(args []string) int{}

func main() {
	if len(os.Args) < 2 {
		fmt.Fprintln(os.Stderr, "usage: drv <cmd> [flags]")
		os.Exit(2)
	}
	f, ok := cmds[os.Args[1]]
	if !ok {
		fmt.Fprintln(os.Stderr, "unknown command", os.Args[1])
		os.Exit(2)
	}
	os.Exit(f(os.Args[2:]))
}
