package main

import (
	"bufio"
	"encoding/json"
	"flag"
	"fmt"
	"math/rand"
	"os"
	"path/filepath"

	"github.com/B1NARY-GR0UP/originium/types"
	"github.com/B1NARY-GR0UP/originium/utils"
	"github.com/B1NARY-GR0UP/originium/wal"
	"verif/harness/internal/dbx"
)

func init() { cmds["walcut"] = cmdWalCut }

// WalCutEvent is one observation for specs/TraceWal.tla: a real log truncated at `cut` bytes and
// read back with wal.Open + WAL.Read.
type WalCutEvent struct {
	Ev     string `json:"ev"`
	Log    int    `json:"log"`
	Sizes  []int  `json:"sizes"` // encoded body lengths (informative; the judgement does not use the format)
	BEnds  []int  `json:"bends"` // file size after each Write call = fsync boundaries (measured)
	BCnt   []int  `json:"bcnt"`  // records written up to that boundary
	Cut    int    `json:"cut"`
	Got    int    `json:"got"`
	Err    bool   `json:"err"`
	Same   bool   `json:"same"`
	Detail string `json:"detail"`
}

// walcut: write random logs with WAL.Write (random batching, empty values, tombstones, long and
// binary keys), then for EVERY byte offset of the file read the truncated copy back.
func cmdWalCut(args []string) int {
	fs := flag.NewFlagSet("walcut", flag.ExitOnError)
	seed := fs.Int64("seed", 1, "seed")
	n := fs.Int("n", 20, "number of logs")
	maxRecs := fs.Int("recs", 5, "records per log (up to)")
	out := fs.String("out", "", "output directory")
	_ = fs.Parse(args)
	mustMkdir(*out)
	dbx.Quiet()
	f, err := os.Create(join(*out, "walcut.ndjson"))
	if err != nil {
		fmt.Fprintln(os.Stderr, err)
		return 2
	}
	w := bufio.NewWriterSize(f, 1<<20)
	enc := json.NewEncoder(w)
	events, bad, torn := 0, 0, 0
	for li := 0; li < *n; li++ {
		r := rand.New(rand.NewSource(mix(*seed, li)))
		dir := scratch("walcut")
		l, err := wal.Create(dir)
		if err != nil {
			fmt.Fprintln(os.Stderr, err)
			return 2
		}
		nrec := 1 + r.Intn(*maxRecs)
		var written []types.Entry
		var sizes, bends, bcnt []int
		for len(written) < nrec {
			b := 1 + r.Intn(3)
			var batch []types.Entry
			for i := 0; i < b && len(written)+len(batch) < nrec; i++ {
				e := types.Entry{Key: string(randBytes(r, pick(r, 1, 1, 3, 9, 40), r.Intn(3) == 0)), Version: int64(1 + len(written) + len(batch))}
				switch r.Intn(4) {
				case 0:
					e.Tombstone, e.Value = true, []byte{}
				case 1:
					e.Value = []byte{}
				default:
					e.Value = randBytes(r, pick(r, 1, 2, 7, 8, 9, 30, 300), r.Intn(2) == 0)
				}
				batch = append(batch, e)
			}
			for i := range batch {
				data, err := utils.TMarshal(&batch[i])
				if err != nil {
					fmt.Fprintln(os.Stderr, err)
					return 2
				}
				sizes = append(sizes, len(data))
			}
			if err := l.Write(batch...); err != nil {
				fmt.Fprintln(os.Stderr, "wal write:", err)
				return 2
			}
			written = append(written, batch...)
			ents, _ := os.ReadDir(dir)
			for _, e := range ents {
				if fi, err := e.Info(); err == nil {
					bends = append(bends, int(fi.Size()))
					bcnt = append(bcnt, len(written))
				}
			}
		}
		path := ""
		ents, _ := os.ReadDir(dir)
		for _, e := range ents {
			path = filepath.Join(dir, e.Name())
		}
		_ = l.Close()
		full, err := os.ReadFile(path)
		if err != nil {
			fmt.Fprintln(os.Stderr, err)
			return 2
		}
		cdir := scratch("walcutc")
		for cut := 0; cut <= len(full); cut++ {
			cp := filepath.Join(cdir, filepath.Base(path))
			if err := os.WriteFile(cp, full[:cut], 0644); err != nil {
				fmt.Fprintln(os.Stderr, err)
				return 2
			}
			ev := WalCutEvent{Ev: "cut", Log: li, Sizes: sizes, BEnds: bends, BCnt: bcnt, Cut: cut, Same: true}
			func() {
				defer func() {
					if p := recover(); p != nil {
						ev.Err, ev.Detail = true, fmt.Sprintf("panic: %v", p)
					}
				}()
				cl, err := wal.Open(cp)
				if err != nil {
					ev.Err, ev.Detail = true, "open: "+err.Error()
					return
				}
				defer cl.Close()
				got, err := cl.Read()
				if err != nil {
					ev.Err, ev.Detail = true, "read: "+err.Error()
					return
				}
				ev.Got = len(got)
				if len(got) > len(written) {
					ev.Same, ev.Detail = false, "more entries than were written"
				} else if d := eqEntries(written[:len(got)], got); d != "" {
					ev.Same, ev.Detail = false, d
				}
			}()
			if ev.Err || !ev.Same {
				bad++
			}
			if ev.Got < len(written) {
				torn++
			}
			_ = enc.Encode(ev)
			events++
		}
		os.RemoveAll(cdir)
		os.RemoveAll(dir)
	}
	if err := w.Flush(); err != nil {
		fmt.Fprintln(os.Stderr, err)
		return 2
	}
	f.Close()
	writeJSON(join(*out, "summary.json"), map[string]any{"logs": *n, "events": events, "bad": bad, "cuts_losing_records": torn})
	return 0
}
