package main

import (
	"bufio"
	"bytes"
	"crypto/sha1"
	"encoding/hex"
	"encoding/json"
	"flag"
	"fmt"
	"io"
	"math/rand"
	"os"
	"os/exec"
	"path/filepath"
	"sort"
	"strings"
	"sync"
	"sync/atomic"
	"time"

	"verif/harness/internal/dbx"
	"verif/harness/internal/gate"
	"verif/harness/internal/kvmap"
	"verif/harness/internal/rec"
)

func init() {
	cmds["crash"] = cmdCrash
	cmds["recover"] = cmdRecover
}

// ---------------------------------------------------------------------------------------
// recover: run in a fresh child process on a crash image. Opens the directory, reads every
// key, commits, reads, closes, reopens, reads. Prints the API events as ndjson on stdout.
// A panic of the engine kills this process: exit status and stderr are the observable.
func cmdRecover(args []string) int {
	fs := flag.NewFlagSet("recover", flag.ExitOnError)
	dir := fs.String("dir", "", "crash image")
	cfgs := fs.String("cfg", "", "config json")
	alphabet := fs.String("alphabet", "plain", "")
	nkeys := fs.Int("nkeys", 3, "")
	vid := fs.Int("vid", 800000, "value id for the post-recovery commit")
	imgdir := fs.String("images", "", "take second-level crash images of this run into this directory")
	_ = fs.Parse(args)
	var cfg CfgJSON
	if err := json.Unmarshal([]byte(*cfgs), &cfg); err != nil {
		fmt.Fprintln(os.Stderr, "bad cfg:", err)
		return 2
	}
	km := kvmap.New(*alphabet, *nkeys)
	tr := &rec.Trace{}
	out := bufio.NewWriter(os.Stdout)
	enc := json.NewEncoder(out)
	flushed := 0
	flush := func() {
		ev := tr.Snapshot()
		for _, e := range ev[flushed:] {
			_ = enc.Encode(e)
		}
		flushed = len(ev)
		out.Flush()
	}
	var im *imager
	if *imgdir != "" {
		ctl := gate.New()
		ctl.Install()
		ctl.Adopt(*dir)
		im = &imager{ctl: ctl, dir: *dir, tr: tr, out: *imgdir, max: 400}
		ctl.OnFsPre = im.onFsPre
	}
	// "Open" is recorded by dbx.Open only after it succeeded
	st, err := dbx.Open(*dir, cfg.Config(), tr, km, false)
	if err != nil {
		fmt.Fprintln(os.Stderr, "open failed:", err)
		return 3
	}
	flush()
	c := st.Sess(1)
	readAll := func() {
		c.Begin(false)
		for k := 1; k <= *nkeys; k++ {
			c.Get(k)
		}
		c.Discard()
	}
	readAll()
	flush()
	// the recovered store accepts and retains further commits
	c.Begin(true)
	c.Put(1+(*vid)%(*nkeys), *vid)
	if *nkeys > 1 {
		c.Put(1+(*vid+1)%(*nkeys), 0)
	}
	c.Commit()
	readAll()
	flush()
	st.Close()
	st, err = dbx.Open(*dir, cfg.Config(), tr, km, false)
	if err != nil {
		fmt.Fprintln(os.Stderr, "second open failed:", err)
		return 3
	}
	c = st.Sess(1)
	readAll()
	st.Close()
	flush()
	if im != nil {
		im.writeIndex()
	}
	return 0
}

// ---------------------------------------------------------------------------------------
// imaging

type Image struct {
	N      int                       `json:"n"`
	Dir    string                    `json:"dir"`
	Op     string                    `json:"op"`   // the file-system operation about to happen
	File   string                    `json:"file"` // on this file
	Prefix []rec.Event               `json:"prefix"`
	Files  map[string]gate.FileState `json:"files"`
	Hash   string                    `json:"hash"`
}

type imager struct {
	ctl    *gate.Ctl
	dir    string
	tr     *rec.Trace
	out    string
	n      int
	max    int
	seen   map[string]bool
	images []Image
	sink   func(Image) // if set, images are handed over instead of collected
}

func copyDir(src, dst string) (string, error) {
	if err := os.MkdirAll(dst, 0755); err != nil {
		return "", err
	}
	ents, err := os.ReadDir(src)
	if err != nil {
		return "", err
	}
	h := sha1.New()
	names := []string{}
	for _, e := range ents {
		if !e.IsDir() {
			names = append(names, e.Name())
		}
	}
	sort.Strings(names)
	for _, n := range names {
		b, err := os.ReadFile(filepath.Join(src, n))
		if err != nil {
			if os.IsNotExist(err) {
				continue
			}
			return "", err
		}
		fmt.Fprintf(h, "%s:%d:", n, len(b))
		h.Write(b)
		if err := os.WriteFile(filepath.Join(dst, n), b, 0644); err != nil {
			return "", err
		}
	}
	return hex.EncodeToString(h.Sum(nil)), nil
}

// onFsPre runs with the file-system token held: no other file-system operation of the engine is
// in progress, so the directory is exactly "every completed operation persisted".
func (im *imager) onFsPre(op, name string, n int) {
	if im.n >= im.max {
		return
	}
	if im.seen == nil {
		im.seen = map[string]bool{}
	}
	d := filepath.Join(im.out, fmt.Sprintf("img-%04d", im.n))
	hash, err := copyDir(im.dir, d)
	if err != nil {
		panic(err)
	}
	prefix := im.tr.Snapshot()
	files := im.ctl.FileStates()
	// same directory content, same API history, same synced lengths => same outcome
	fj, _ := json.Marshal(files)
	key := fmt.Sprintf("%s|%d|%s", hash, len(prefix), fj)
	if im.seen[key] {
		os.RemoveAll(d)
		return
	}
	im.seen[key] = true
	img := Image{N: im.n, Dir: d, Op: op, File: filepath.Base(name), Prefix: prefix, Files: files, Hash: hash}
	im.n++
	crashProgress.Add(1)
	if im.sink != nil {
		im.sink(img)
		return
	}
	im.images = append(im.images, img)
}

func (im *imager) writeIndex() {
	writeJSON(filepath.Join(im.out, "index.json"), im.images)
}

// ---------------------------------------------------------------------------------------
// crash scripts

func genCrashScript(r *rand.Rand, id string, nops int) Script {
	s := Script{ID: id, Seed: r.Int63(), Mode: "steer", NKeys: 2 + r.Intn(4)}
	s.Cfg = CfgJSON{
		SkipListMaxLevel:       pick(r, 1, 4),
		SkipListP:              0.5,
		MemtableByteThreshold:  pick(r, 1, 1, 60, 150, 400),
		ImmutableBuffer:        pick(r, 0, 1, 2),
		DataBlockByteThreshold: pick(r, 1, 60, 4096),
		L0TargetNum:            pick(r, 1, 1, 2, 3),
		LevelRatio:             pick(r, 1, 2),
	}
	s.Alphabet = pick(r, "plain", "adversarial", "binary")
	vid := 0
	flP := pick(r, 0.2, 0.5, 0.8)
	if r.Intn(4) == 0 {
		// backlog: nobody releases the flusher, so Close and the crash points around it meet queued
		// memtables and a non-empty active memtable that all hold versions of the same few keys
		s.NKeys = 2
		s.Cfg.MemtableByteThreshold = pick(r, 150, 250, 400)
		s.Cfg.ImmutableBuffer = pick(r, 1, 2, 3)
		for i := 0; i < 5+r.Intn(6); i++ {
			vid++
			st := Step{Op: "txn", Puts: [][2]int{{1 + r.Intn(2), vid}}}
			if r.Intn(2) == 0 {
				vid++
				st.Puts = append(st.Puts, [2]int{1 + (st.Puts[0][0] % 2), vid})
			}
			s.Steps = append(s.Steps, st)
			if r.Intn(5) == 0 {
				s.Steps = append(s.Steps, Step{Op: "reopen"})
			}
		}
		s.Steps = append(s.Steps, Step{Op: "reopen"}, Step{Op: "idle"})
		return s
	}
	if r.Intn(6) == 0 {
		// big transactions: several 40 kB values in one commit (more than 64 KiB in one wal batch)
		s.NKeys = 3
		for i := 0; i < 3+r.Intn(3); i++ {
			st := Step{Op: "txn"}
			for _, k := range r.Perm(3)[:2+r.Intn(2)] {
				vid++
				st.Puts = append(st.Puts, [2]int{k + 1, kvmap.BigBase + vid})
			}
			s.Steps = append(s.Steps, st)
			for r.Float64() < flP {
				s.Steps = append(s.Steps, Step{Op: "fl", N: 1})
			}
		}
		s.Steps = append(s.Steps, Step{Op: "idle"})
		return s
	}
	for i := 0; i < nops; i++ {
		for r.Float64() < flP {
			s.Steps = append(s.Steps, Step{Op: "fl", N: 1})
		}
		x := r.Float64()
		switch {
		case x < 0.08:
			s.Steps = append(s.Steps, Step{Op: "reopen"})
		case x < 0.14:
			s.Steps = append(s.Steps, Step{Op: "idle"})
		default:
			st := Step{Op: "txn"}
			n := 1 + r.Intn(3)
			if n > s.NKeys {
				n = s.NKeys
			}
			for _, k := range r.Perm(s.NKeys)[:n] {
				if r.Intn(6) == 0 {
					st.Puts = append(st.Puts, [2]int{k + 1, 0})
				} else {
					vid++
					st.Puts = append(st.Puts, [2]int{k + 1, vid})
				}
			}
			s.Steps = append(s.Steps, st)
		}
	}
	s.Steps = append(s.Steps, Step{Op: "idle"})
	return s
}

type CrashOutcome struct {
	Script   string `json:"script"`
	Image    int    `json:"image"`
	Level    int    `json:"level"`   // 1 = crash of the workload, 2 = crash inside the recovery run
	Variant  string `json:"variant"` // "" | torn:<file>@<len> | walname
	Op       string `json:"op"`
	File     string `json:"file"`
	ExitCode int    `json:"exit"`
	Stderr   string `json:"stderr,omitempty"`
	Events   int    `json:"events"`
	Inflight bool   `json:"inflight"`
	Keep     string `json:"keep,omitempty"`
}

type crashJob struct {
	script     Script
	img        Image
	variant    string
	dir        string // directory to recover (image or a modified copy)
	level      int
	deeper     bool     // take second-level images
	renameWals []string // walname variant: wal files (oldest first) to rename right before recovery
}

type crashRunner struct {
	self      string
	outdir    string
	mu        sync.Mutex
	traces    [][]rec.Event
	outcomes  []CrashOutcome
	meta      []map[string]any
	jobs      chan crashJob
	wg        sync.WaitGroup
	torn      string // "" | quick | thorough
	walname   bool
	deepEvery int
	depth     int
	keepBad   string
	vidc      int
}

func inflight(prefix []rec.Event) bool {
	pend := map[int]bool{}
	for _, e := range prefix {
		switch e.Ev {
		case "CommitInv":
			pend[e.W] = true
		case "CommitResp":
			delete(pend, e.W)
		}
	}
	return len(pend) > 0
}

func (cr *crashRunner) worker() {
	defer cr.wg.Done()
	for j := range cr.jobs {
		cr.runJob(j)
	}
}

// walLess orders wal file names by (second, nanosecond) numerically.
func walLess(a, b string) bool {
	pa := strings.Split(strings.TrimSuffix(a, ".log"), "-")
	pb := strings.Split(strings.TrimSuffix(b, ".log"), "-")
	if len(pa) < 3 || len(pb) < 3 {
		return a < b
	}
	if pa[1] != pb[1] {
		return pa[1] < pb[1]
	}
	var na, nb int64
	fmt.Sscan(pa[2], &na)
	fmt.Sscan(pb[2], &nb)
	return na < nb
}

func (cr *crashRunner) runJob(j crashJob) {
	if len(j.renameWals) > 0 {
		now := time.Now()
		if now.Nanosecond() > 600_000_000 {
			time.Sleep(time.Duration(1_000_000_000-now.Nanosecond()+1_000_000) * time.Nanosecond)
			now = time.Now()
		}
		sec := now.Format("20060102150405")
		for i, name := range j.renameWals {
			_ = os.Rename(filepath.Join(j.dir, name), filepath.Join(j.dir, fmt.Sprintf("wal-%s-%d.log", sec, 7+i)))
		}
	}
	cfgb, _ := json.Marshal(j.script.Cfg)
	cr.mu.Lock()
	cr.vidc++
	vid := 800000 + cr.vidc
	cr.mu.Unlock()
	args := []string{"recover", "-dir", j.dir, "-cfg", string(cfgb), "-alphabet", j.script.Alphabet,
		"-nkeys", fmt.Sprint(j.script.NKeys), "-vid", fmt.Sprint(vid)}
	var deep string
	if j.deeper {
		deep = j.dir + "-l2"
		args = append(args, "-images", deep)
	}
	cmd := exec.Command(cr.self, args...)
	var so, se bytes.Buffer
	cmd.Stdout, cmd.Stderr = &so, &se
	done := make(chan error, 1)
	if err := cmd.Start(); err != nil {
		panic(err)
	}
	go func() { done <- cmd.Wait() }()
	exit := 0
	select {
	case err := <-done:
		if err != nil {
			exit = 1
			if ee, ok := err.(*exec.ExitError); ok {
				exit = ee.ExitCode()
			}
		}
	case <-time.After(600 * time.Second):
		_ = cmd.Process.Kill()
		exit = 124
		se.WriteString("\nrecovery did not finish within 600s")
	}
	var child []rec.Event
	dec := json.NewDecoder(&so)
	for dec.More() {
		var e rec.Event
		if err := dec.Decode(&e); err != nil {
			break
		}
		child = append(child, e)
	}
	tr := append(append([]rec.Event{}, j.img.Prefix...), rec.Event{Ev: "Crash"})
	tr = append(tr, child...)
	oc := CrashOutcome{Script: j.script.ID, Image: j.img.N, Level: j.level, Variant: j.variant, Op: j.img.Op, File: j.img.File,
		ExitCode: exit, Events: len(tr), Inflight: inflight(j.img.Prefix)}
	if exit != 0 {
		s := se.String()
		if len(s) > 3000 {
			s = s[:3000]
		}
		oc.Stderr = s
		if cr.keepBad != "" {
			// keep the pristine image for replay (the child may have modified j.dir)
			keep := filepath.Join(cr.keepBad, fmt.Sprintf("%s-img%d-l%d%s", j.script.ID, j.img.N, j.level, strings.NewReplacer(":", "_", "/", "_", "@", "_").Replace(j.variant)))
			if _, err := copyDir(j.img.Dir, keep); err == nil {
				oc.Keep = keep
			}
		}
	}
	cr.mu.Lock()
	cr.traces = append(cr.traces, tr)
	cr.outcomes = append(cr.outcomes, oc)
	crashProgress.Add(1)
	cr.meta = append(cr.meta, map[string]any{"script": j.script.ID, "image": j.img.N, "variant": j.variant, "level": j.level,
		"op": j.img.Op, "file": j.img.File, "cfg": j.script.Cfg, "alphabet": j.script.Alphabet, "nkeys": j.script.NKeys})
	cr.mu.Unlock()
	// second-level images: crash inside the recovery run
	if deep != "" {
		if b, err := os.ReadFile(filepath.Join(deep, "index.json")); err == nil {
			var imgs []Image
			_ = json.Unmarshal(b, &imgs)
			for _, im2 := range imgs {
				full := append(append([]rec.Event{}, j.img.Prefix...), rec.Event{Ev: "Crash"})
				full = append(full, im2.Prefix...)
				im2.Prefix = full
				work := im2.Dir + "-w"
				if _, err := copyDir(im2.Dir, work); err != nil {
					continue
				}
				cr.runJob(crashJob{script: j.script, img: im2, dir: work, level: j.level + 1})
				os.RemoveAll(work)
			}
		}
		os.RemoveAll(deep)
	}
	if j.dir != j.img.Dir {
		os.RemoveAll(j.dir)
	}
}

// submit creates the recovery jobs for one image: the image itself, its torn variants (C14) and
// the wal-name variant.
func (cr *crashRunner) submit(s Script, img Image, r *rand.Rand) {
	work := img.Dir + "-w"
	if _, err := copyDir(img.Dir, work); err != nil {
		panic(err)
	}
	cr.jobs <- crashJob{script: s, img: img, dir: work, level: 1, deeper: cr.depth > 1 && r.Intn(cr.deepEvery) == 0}
	// wal-name variant: the same image with its wal files named as if they had been created in the
	// first nanoseconds of the second in which recovery runs (names the code can produce)
	if cr.walname && r.Intn(4) == 0 {
		var wals []string
		for name := range img.Files {
			if strings.HasSuffix(name, ".log") {
				wals = append(wals, name)
			}
		}
		if len(wals) > 0 && len(wals) <= 3 {
			sort.Slice(wals, func(i, j int) bool { return walLess(wals[i], wals[j]) })
			v := img.Dir + "-wn"
			if _, err := copyDir(img.Dir, v); err == nil {
				cr.jobs <- crashJob{script: s, img: img, dir: v, level: 1, variant: "walname", renameWals: wals}
			}
		}
	}
	if cr.torn != "" {
		for name, fsx := range img.Files {
			if fsx.Written <= fsx.Synced {
				continue
			}
			cuts := map[int64]bool{fsx.Synced: true, fsx.Synced + 1: true, (fsx.Synced + fsx.Written) / 2: true, fsx.Written - 1: true,
				// around the 8-byte length prefix of the first unsynced wal record
				fsx.Synced + 7: true, fsx.Synced + 8: true, fsx.Synced + 9: true}
			if cr.torn == "thorough" {
				if fsx.Written-fsx.Synced <= 64 {
					for c := fsx.Synced; c < fsx.Written; c++ {
						cuts[c] = true
					}
				} else {
					for i := 0; i < 16; i++ {
						cuts[fsx.Synced+r.Int63n(fsx.Written-fsx.Synced)] = true
					}
				}
			}
			for c := range cuts {
				if c < fsx.Synced || c >= fsx.Written {
					continue
				}
				v := fmt.Sprintf("%s-t%d", img.Dir, c) + strings.ReplaceAll(name, ".", "_")
				if _, err := copyDir(img.Dir, v); err != nil {
					continue
				}
				if err := os.Truncate(filepath.Join(v, name), c); err != nil {
					os.RemoveAll(v)
					continue
				}
				cr.jobs <- crashJob{script: s, img: img, dir: v, level: 1, variant: fmt.Sprintf("torn:%s@%d(synced %d, written %d)", name, c, fsx.Synced, fsx.Written),
					deeper: cr.depth > 1 && r.Intn(cr.deepEvery) == 0}
			}
		}
	}
}

func cmdCrash(args []string) int {
	fs := flag.NewFlagSet("crash", flag.ExitOnError)
	seed := fs.Int64("seed", 1, "seed")
	n := fs.Int("n", 3, "number of scripts (this process runs those of its shard)")
	ops := fs.Int("ops", 14, "operations per script")
	out := fs.String("out", "", "output directory")
	shard := fs.Int("shard", 0, "")
	shards := fs.Int("shards", 1, "")
	torn := fs.String("torn", "", "also cut unsynced tails: quick | thorough")
	depth := fs.Int("depth", 1, "2: also crash inside recovery runs")
	deepEvery := fs.Int("deep-every", 6, "with depth 2: second-level images for every n-th image")
	walname := fs.Bool("walname", false, "also recover a quarter of the images with same-second wal names")
	par := fs.Int("par", 4, "recovery children in parallel")
	maxImg := fs.Int("max-images", 2000, "per script")
	file := fs.String("scripts", "", "ndjson of scripts to run instead")
	dur := fs.Bool("dur", false, "also record the durability-level stream of the uncrashed runs for TraceCrash.tla")
	keepImg := fs.Bool("keep-images", false, "keep all pristine images under <out>/images (debugging, replay)")
	_ = fs.Parse(args)
	mustMkdir(*out)
	self, _ := os.Executable()
	var scripts []Script
	if *file != "" {
		f, err := os.Open(*file)
		if err != nil {
			fmt.Fprintln(os.Stderr, err)
			return 2
		}
		dec := json.NewDecoder(f)
		for dec.More() {
			var s Script
			if dec.Decode(&s) != nil {
				break
			}
			scripts = append(scripts, s)
		}
		f.Close()
	} else {
		for i := 0; i < *n; i++ {
			if i%*shards != *shard {
				continue
			}
			r := rand.New(rand.NewSource(mix(*seed, i)))
			scripts = append(scripts, genCrashScript(r, fmt.Sprintf("crash-%d-%d", *seed, i), *ops))
		}
	}
	imgroot := scratch("img")
	if *keepImg {
		imgroot = join(*out, "images")
		mustMkdir(imgroot)
	} else {
		defer os.RemoveAll(imgroot)
	}
	cr := &crashRunner{self: self, outdir: *out, jobs: make(chan crashJob, 8), torn: *torn, depth: *depth,
		keepBad: join(*out, "bad-images"), walname: *walname, deepEvery: *deepEvery}
	for i := 0; i < *par; i++ {
		cr.wg.Add(1)
		go cr.worker()
	}
	ctl := gate.New()
	ctl.Install()
	var results []ScriptResult
	var durs [][]DurEvent
	var durIDs []string
	nimg := 0
	for si, s := range scripts {
		r := rand.New(rand.NewSource(mix(s.Seed, 99)))
		dir := scratch("crashdb")
		tr := &rec.Trace{}
		var res ScriptResult
		res.ID = s.ID
		run := &runner{s: s, ctl: ctl, dir: dir, tr: tr, km: kvmap.New(s.Alphabet, s.NKeys), cfg: s.Cfg, res: &res}
		ctl.OnClient = run.onClient
		im := &imager{ctl: ctl, dir: dir, tr: tr, out: join(imgroot, fmt.Sprintf("s%d", si)), max: *maxImg}
		im.sink = func(img Image) { cr.submit(s, img, r) }
		ctl.OnFsPre = im.onFsPre
		if *dur {
			ctl.ResetEvents()
			ctl.Record = true
			tr.Mirror = func(e rec.Event) { ctl.Note("api", e) }
		}
		withProgressWatchdog("crash script "+s.ID, 900*time.Second, func() int64 { return crashProgress.Load() }, func() {
			if err := run.open(true); err != nil {
				res.Err = err.Error()
				return
			}
			for _, step := range s.Steps {
				if err := run.step(step); err != nil {
					res.Err = err.Error()
					return
				}
			}
			run.drain()
			run.st.Close()
		})
		ctl.OnFsPre = nil
		if *dur {
			ctl.Record = false
			if res.Err == "" {
				durs = append(durs, durStream(ctl.Events()))
				durIDs = append(durIDs, s.ID)
			}
		}
		db, _, _, lv := countFiles(dir)
		res.DBFiles, res.Levels = db, lv
		res.Events = tr.Len()
		results = append(results, res)
		nimg += im.n
		os.RemoveAll(dir)
	}
	close(cr.jobs)
	cr.wg.Wait()
	w, err := rec.NewWriter(join(*out, "traces.ndjson"))
	if err != nil {
		fmt.Fprintln(os.Stderr, err)
		return 2
	}
	maxKeys := 0
	for _, s := range scripts {
		maxKeys = max(maxKeys, s.NKeys)
	}
	for _, t := range cr.traces {
		w.WriteTrace(t)
	}
	if err := w.Close(); err != nil {
		fmt.Fprintln(os.Stderr, err)
		return 2
	}
	sf, _ := os.Create(join(*out, "scripts.ndjson"))
	enc := json.NewEncoder(sf)
	for _, s := range scripts {
		_ = enc.Encode(s)
	}
	sf.Close()
	summ := map[string]any{
		"traces": w.Traces, "events": w.Events, "offsets": w.Offsets, "workers": 1, "keys": maxKeys,
		"results": results, "outcomes": cr.outcomes, "meta": cr.meta, "images": nimg,
	}
	if *dur {
		df, _ := os.Create(join(*out, "dur.ndjson"))
		denc := json.NewEncoder(df)
		var offs []int
		n := 0
		for _, d := range durs {
			offs = append(offs, n+1)
			_ = denc.Encode(DurEvent{Ev: "reset", Ks: []int{}, Ins: []int{}})
			n++
			for _, e := range d {
				_ = denc.Encode(e)
				n++
			}
		}
		df.Close()
		summ["dur_offsets"], summ["dur_events"], summ["dur_scripts"] = offs, n, durIDs
	}
	writeJSON(join(*out, "summary.json"), summ)
	return 0
}

// crashProgress counts images taken and recoveries finished: the workload waits for the recovery
// pool, so "stuck" means a whole watchdog period without either.
var crashProgress atomic.Int64

var _ = io.EOF
