package main

import (
	"encoding/json"
	"fmt"
	"math/rand"
	"os"
	"path/filepath"
	"runtime"
	"strings"
	"time"

	"github.com/B1NARY-GR0UP/originium"
)

// scratch returns a fresh directory on tmpfs.
func scratch(tag string) string {
	base := "/dev/shm"
	if _, err := os.Stat(base); err != nil {
		base = os.TempDir()
	}
	pat := "verif-" + tag + "-"
	if tag == "seq" || tag == "conc" {
		// a data directory is any path: keep pattern characters and a blank in its name
		pat += "[v]? -"
	}
	d, err := os.MkdirTemp(base, pat)
	if err != nil {
		panic(err)
	}
	return d
}

type CfgJSON struct {
	SkipListMaxLevel       int     `json:"skl"`
	SkipListP              float64 `json:"p"`
	MemtableByteThreshold  int     `json:"mem"`
	ImmutableBuffer        int     `json:"queue"`
	DataBlockByteThreshold int     `json:"block"`
	L0TargetNum            int     `json:"l0"`
	LevelRatio             int     `json:"ratio"`
}

func (c CfgJSON) Config() originium.Config {
	return originium.Config{
		SkipListMaxLevel:       c.SkipListMaxLevel,
		SkipListP:              c.SkipListP,
		MemtableByteThreshold:  c.MemtableByteThreshold,
		ImmutableBuffer:        c.ImmutableBuffer,
		DataBlockByteThreshold: c.DataBlockByteThreshold,
		L0TargetNum:            c.L0TargetNum,
		LevelRatio:             c.LevelRatio,
	}
}

func pick[T any](r *rand.Rand, xs ...T) T { return xs[r.Intn(len(xs))] }

// randCfg draws a configuration that forces rotations, flushes and multi-level compactions.
func randCfg(r *rand.Rand) CfgJSON {
	return CfgJSON{
		SkipListMaxLevel:       pick(r, 1, 2, 4, 9),
		SkipListP:              pick(r, 0.25, 0.5, 0.9),
		MemtableByteThreshold:  pick(r, 1, 64, 120, 300, 700, 2000, 6000),
		ImmutableBuffer:        pick(r, 0, 1, 2, 4),
		DataBlockByteThreshold: pick(r, 1, 40, 200, 4096),
		L0TargetNum:            pick(r, 1, 2, 3, 4),
		LevelRatio:             pick(r, 1, 2, 3),
	}
}

func countFiles(dir string) (db, wal, tmp int, levels map[int]int) {
	levels = map[int]int{}
	ents, _ := os.ReadDir(dir)
	for _, e := range ents {
		n := e.Name()
		switch {
		case strings.HasSuffix(n, ".db"):
			db++
			var l, i int
			if _, err := fmt.Sscanf(n, "%d-%d.db", &l, &i); err == nil {
				levels[l]++
			}
		case strings.HasSuffix(n, ".log"):
			wal++
		default:
			tmp++
		}
	}
	return
}

func writeJSON(path string, v any) {
	b, err := json.MarshalIndent(v, "", " ")
	if err != nil {
		panic(err)
	}
	if err := os.WriteFile(path, b, 0644); err != nil {
		panic(err)
	}
}

func mustMkdir(p string) {
	if err := os.MkdirAll(p, 0755); err != nil {
		panic(err)
	}
}

func join(a ...string) string { return filepath.Join(a...) }

// mix turns (seed, i) into a well-spread rand seed (splitmix64): consecutive seeds given to
// math/rand produce correlated first draws.
func mix(seed int64, i int) int64 {
	z := uint64(seed)*0x9E3779B97F4A7C15 + uint64(i)*0xBF58476D1CE4E5B9 + 0x94D049BB133111EB
	z = (z ^ (z >> 30)) * 0xBF58476D1CE4E5B9
	z = (z ^ (z >> 27)) * 0x94D049BB133111EB
	z ^= z >> 31
	return int64(z >> 1)
}

func runtimeGosched() { time.Sleep(200 * time.Microsecond) }

// withWatchdog runs f; if it does not return within d the process prints all goroutine stacks and
// exits with status 97: a steered run can only get stuck if the engine blocks where the spec says
// it cannot, or if the steering itself is wrong - the orchestrator reports it as inconclusive.
func withWatchdog(what string, d time.Duration, f func()) {
	done := make(chan struct{})
	go func() { f(); close(done) }()
	select {
	case <-done:
	case <-time.After(d):
		buf := make([]byte, 1<<20)
		n := runtime.Stack(buf, true)
		fmt.Fprintf(os.Stderr, "HARNESS-WATCHDOG: %s did not finish within %v\n%s\n", what, d, buf[:n])
		os.Exit(97)
	}
}

// withProgressWatchdog is withWatchdog for work that legitimately waits for other work: it fires
// only when f has not returned and progress() has not changed during a whole period d.
func withProgressWatchdog(what string, d time.Duration, progress func() int64, f func()) {
	done := make(chan struct{})
	go func() { f(); close(done) }()
	last := progress()
	for {
		select {
		case <-done:
			return
		case <-time.After(d):
			if p := progress(); p != last {
				last = p
				continue
			}
			buf := make([]byte, 1<<20)
			n := runtime.Stack(buf, true)
			fmt.Fprintf(os.Stderr, "HARNESS-WATCHDOG: %s made no progress for %v\n%s\n", what, d, buf[:n])
			os.Exit(97)
		}
	}
}
