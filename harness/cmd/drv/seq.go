package main

import (
	"encoding/json"
	"flag"
	"fmt"
	"math/rand"
	"os"
	"sync"
	"time"

	"verif/harness/internal/gate"
	"verif/harness/internal/rec"
)

func init() { cmds["seq"] = cmdSeq }

// seq: single-client scenarios (C01, C02, C08): random scripts or scripts from a file.
func cmdSeq(args []string) int {
	fs := flag.NewFlagSet("seq", flag.ExitOnError)
	seed := fs.Int64("seed", 1, "seed")
	n := fs.Int("n", 50, "number of scripts")
	ops := fs.Int("ops", 60, "operations per script")
	out := fs.String("out", "", "output directory")
	par := fs.Int("par", 16, "parallel scripts")
	file := fs.String("scripts", "", "ndjson file of scripts to run instead of random ones")
	only := fs.Int("only", -1, "run only script i")
	profile := fs.String("profile", "", "c01 | c02 | c05 | c08 | (empty: everything)")
	shard := fs.Int("shard", 0, "this process runs scripts i with i % shards == shard")
	shards := fs.Int("shards", 1, "number of shards")
	steer := fs.Bool("steer", true, "honour Mode=steer (one DB at a time in this process)")
	_ = fs.Parse(args)
	mustMkdir(*out)

	var scripts []Script
	if *file != "" {
		f, err := os.Open(*file)
		if err != nil {
			fmt.Fprintln(os.Stderr, err)
			return 2
		}
		dec := json.NewDecoder(f)
		for dec.More() {
			var s Script
			if err := dec.Decode(&s); err != nil {
				fmt.Fprintln(os.Stderr, err)
				return 2
			}
			scripts = append(scripts, s)
		}
		f.Close()
	} else {
		for i := 0; i < *n; i++ {
			r := rand.New(rand.NewSource(mix(*seed, i)))
			nops := *ops
			if i%5 == 4 {
				nops = *ops * 4
			}
			scripts = append(scripts, genScript(r, fmt.Sprintf("seq-%s-%d-%d", *profile, *seed, i), nops, *profile))
		}
	}
	if *only >= 0 {
		scripts = scripts[*only : *only+1]
	} else if *shards > 1 {
		var mine []Script
		for i := range scripts {
			if i%*shards == *shard {
				mine = append(mine, scripts[i])
			}
		}
		scripts = mine
	}
	var ctl *gate.Ctl
	if *steer {
		ctl = gate.New()
		ctl.Install()
		*par = 1
	}

	results := make([]ScriptResult, len(scripts))
	traces := make([]*rec.Trace, len(scripts))
	var wg sync.WaitGroup
	sem := make(chan struct{}, *par)
	for i := range scripts {
		wg.Add(1)
		sem <- struct{}{}
		go func(i int) {
			defer wg.Done()
			defer func() { <-sem }()
			withWatchdog("script "+scripts[i].ID, 300*time.Second, func() { traces[i], results[i] = runScript(scripts[i], ctl) })
		}(i)
	}
	wg.Wait()

	w, err := rec.NewWriter(join(*out, "traces.ndjson"))
	if err != nil {
		fmt.Fprintln(os.Stderr, err)
		return 2
	}
	sf, _ := os.Create(join(*out, "scripts.ndjson"))
	enc := json.NewEncoder(sf)
	maxKeys := 0
	for i := range scripts {
		_ = enc.Encode(scripts[i])
		w.WriteTrace(traces[i].Snapshot())
		if scripts[i].NKeys > maxKeys {
			maxKeys = scripts[i].NKeys
		}
	}
	sf.Close()
	// implementation-level streams (steered scripts only), one batch file for TraceStore.tla
	implf, _ := os.Create(join(*out, "impl.ndjson"))
	ienc := json.NewEncoder(implf)
	var implOffsets []int
	var implIdx []int
	iline := 0
	for i := range scripts {
		if len(results[i].Impl) == 0 {
			continue
		}
		implOffsets = append(implOffsets, iline+1)
		implIdx = append(implIdx, i)
		_ = ienc.Encode(ImplEvent{Ev: "reset"})
		iline++
		for _, e := range results[i].Impl {
			_ = ienc.Encode(e)
			iline++
		}
	}
	implf.Close()
	if err := w.Close(); err != nil {
		fmt.Fprintln(os.Stderr, err)
		return 2
	}
	writeJSON(join(*out, "summary.json"), map[string]any{
		"traces": w.Traces, "events": w.Events, "offsets": w.Offsets,
		"workers": 6, "keys": maxKeys, "results": results,
		"impl_offsets": implOffsets, "impl_scripts": implIdx, "impl_events": iline,
	})
	return 0
}
