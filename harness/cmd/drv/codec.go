package main

import (
	"bufio"
	"bytes"
	"encoding/json"
	"flag"
	"fmt"
	"math"
	"math/rand"
	"os"
	"reflect"
	"sync"

	"github.com/B1NARY-GR0UP/originium/table"
	"github.com/B1NARY-GR0UP/originium/types"
	"github.com/B1NARY-GR0UP/originium/wal"
	"verif/harness/internal/dbx"
)

func init() { cmds["codec"] = cmdCodec }

type CodecEvent struct {
	Ev     string `json:"ev"`
	Codec  string `json:"codec"`
	Equal  bool   `json:"equal"`
	MaxLen int    `json:"maxlen"`
	Case   string `json:"case"`
	Detail string `json:"detail"`
}

func randBytes(r *rand.Rand, n int, binary bool) []byte {
	b := make([]byte, n)
	for i := range b {
		if binary {
			b[i] = byte(r.Intn(256))
		} else {
			b[i] = byte('a' + r.Intn(26))
		}
	}
	return b
}

func eqEntries(a, b []types.Entry) string {
	if len(a) != len(b) {
		return fmt.Sprintf("%d entries decoded, %d encoded", len(b), len(a))
	}
	for i := range a {
		if a[i].Key != b[i].Key {
			return fmt.Sprintf("entry %d: key differs (len %d vs %d)", i, len(a[i].Key), len(b[i].Key))
		}
		if !bytes.Equal(a[i].Value, b[i].Value) {
			return fmt.Sprintf("entry %d: value differs (len %d vs %d)", i, len(a[i].Value), len(b[i].Value))
		}
		if a[i].Tombstone != b[i].Tombstone || a[i].Version != b[i].Version {
			return fmt.Sprintf("entry %d: tombstone/version differ (%v,%d vs %v,%d)", i, a[i].Tombstone, a[i].Version, b[i].Tombstone, b[i].Version)
		}
	}
	return ""
}

func safely(f func() string) (res string) {
	defer func() {
		if x := recover(); x != nil {
			res = fmt.Sprintf("panic: %v", x)
		}
	}()
	return f()
}

// genEntries: lists in which the length classes of key suffix, shared prefix and value are chosen
// from the boundary classes of the format.
func genEntries(r *rand.Rand, keyLens, valLens []int, n int) ([]types.Entry, int) {
	var es []types.Entry
	prev := ""
	maxl := 0
	for i := 0; i < n; i++ {
		kl := keyLens[r.Intn(len(keyLens))]
		vl := valLens[r.Intn(len(valLens))]
		var key string
		switch r.Intn(5) {
		case 3, 4: // the previous key with one byte changed (and, sometimes, a different tail): equal again after the difference
			if len(prev) >= 2 {
				b := []byte(prev)
				p := r.Intn(len(b))
				b[p] = byte('a' + (int(b[p])+1+r.Intn(20))%26)
				if r.Intn(3) == 0 {
					q := p + 1 + r.Intn(len(b)-p)
					b = append(b[:q:q], randBytes(r, r.Intn(12), false)...)
				}
				key = string(b)
				break
			}
			fallthrough
		case 0: // no shared prefix
			key = string(randBytes(r, kl, r.Intn(2) == 0))
		case 1: // long shared prefix with the previous key
			p := len(prev)
			if p > kl {
				p = kl
			}
			key = prev[:p] + string(randBytes(r, kl-p, false))
		default: // the previous key is a full prefix
			key = prev + string(randBytes(r, 1+r.Intn(3), false))
		}
		if key == "" {
			key = "k"
		}
		ver := pick(r, int64(0), 1, 7, math.MaxInt64, -1)
		e := types.Entry{Key: key, Value: randBytes(r, vl, true), Tombstone: r.Intn(3) == 0, Version: ver}
		es = append(es, e)
		prev = key
		maxl = max(maxl, len(key), vl)
	}
	return es, maxl
}

func cmdCodec(args []string) int {
	fs := flag.NewFlagSet("codec", flag.ExitOnError)
	seed := fs.Int64("seed", 1, "")
	n := fs.Int("n", 200, "cases per codec")
	out := fs.String("out", "", "")
	_ = fs.Parse(args)
	mustMkdir(*out)
	dbx.Quiet()
	f, _ := os.Create(join(*out, "traces.ndjson"))
	bw := bufio.NewWriter(f)
	enc := json.NewEncoder(bw)
	count := 0
	emit := func(e CodecEvent) { _ = enc.Encode(e); count++ }
	small := []int{0, 1, 2, 15, 255, 256, 300}
	edge := []int{65534, 65535, 65536, 65537, 70000}
	r := rand.New(rand.NewSource(mix(*seed, 1)))
	for i := 0; i < *n; i++ {
		kl, vl := small[1:], small
		cls := "small"
		switch i % 10 {
		case 7:
			kl, cls = edge, "key>=64k-2"
		case 8:
			vl, cls = edge, "value>=64k-2"
		case 9:
			kl, vl, cls = []int{65535}, []int{65535}, "key=value=65535"
		}
		es, maxl := genEntries(r, kl, vl, 1+r.Intn(4))
		if i%5 == 2 {
			// a damaged block (torn table file) fails to decode; the codecs must keep working afterwards
			_ = safely(func() string {
				blk := table.Data{Entries: es}
				b, _ := blk.Encode()
				var x table.Data
				_ = x.Decode(b[:len(b)/2])
				_ = x.Decode(randBytes(r, 1+r.Intn(40), true))
				var y table.Index
				_ = y.Decode(b[:len(b)/3])
				_ = y.Decode(randBytes(r, 1+r.Intn(40), true))
				return ""
			})
		}
		// Data block
		d := safely(func() string {
			blk := table.Data{Entries: es}
			b, err := blk.Encode()
			if err != nil {
				return "encode error: " + err.Error()
			}
			var back table.Data
			if err := back.Decode(b); err != nil {
				return "decode error: " + err.Error()
			}
			return eqEntries(es, back.Entries)
		})
		emit(CodecEvent{Ev: "RoundTrip", Codec: "Data", Equal: d == "", MaxLen: maxl, Case: cls, Detail: d})
		// Index block (keys as block boundaries)
		ix := table.Index{DataBlock: table.BlockHandle{Offset: uint64(r.Int63()), Length: uint64(r.Int63())}}
		for j := 0; j+1 < len(es)+1 && j < len(es); j++ {
			ix.Entries = append(ix.Entries, table.IndexEntry{StartKey: es[j].Key, EndKey: es[len(es)-1].Key,
				DataHandle: table.BlockHandle{Offset: uint64(r.Int63n(1 << 40)), Length: uint64(r.Int63n(1 << 30))}})
		}
		d = safely(func() string {
			b, err := ix.Encode()
			if err != nil {
				return "encode error: " + err.Error()
			}
			var back table.Index
			if err := back.Decode(b); err != nil {
				return "decode error: " + err.Error()
			}
			if !reflect.DeepEqual(ix, back) {
				return "index differs"
			}
			return ""
		})
		mk := 0
		for _, e := range es {
			mk = max(mk, len(e.Key))
		}
		emit(CodecEvent{Ev: "RoundTrip", Codec: "Index", Equal: d == "", MaxLen: mk, Case: cls, Detail: d})
		// Footer, Meta
		ft := table.Footer{MetaBlock: table.BlockHandle{Offset: r.Uint64(), Length: r.Uint64()}, IndexBlock: table.BlockHandle{Offset: r.Uint64(), Length: r.Uint64()}}
		d = safely(func() string {
			ft.Magic = 0x5bc2aa5766250562
			b, err := ft.Encode()
			if err != nil {
				return err.Error()
			}
			var back table.Footer
			if err := back.Decode(b); err != nil {
				return err.Error()
			}
			if back != ft {
				return "footer differs"
			}
			if len(b) != 40 {
				return fmt.Sprintf("footer is %d bytes, recovery reads 40", len(b))
			}
			return ""
		})
		emit(CodecEvent{Ev: "RoundTrip", Codec: "Footer", Equal: d == "", Case: cls, Detail: d})
		mt := table.Meta{CreatedUnix: r.Int63() - r.Int63(), Level: r.Uint64()}
		d = safely(func() string {
			b, err := mt.Encode()
			if err != nil {
				return err.Error()
			}
			var back table.Meta
			if err := back.Decode(b); err != nil {
				return err.Error()
			}
			if back != mt {
				return "meta differs"
			}
			return ""
		})
		emit(CodecEvent{Ev: "RoundTrip", Codec: "Meta", Equal: d == "", Case: cls, Detail: d})
		// whole table: Build, then decode the way recovery does (footer -> index -> all data blocks)
		if cls == "small" {
			sorted := append([]types.Entry(nil), es...)
			for k := range sorted { // Build wants versioned keys in order; make them so
				sorted[k].Key = types.KeyWithTs(fmt.Sprintf("%04d", k)+sorted[k].Key, uint64(1+r.Intn(5)))
			}
			d = safely(func() string {
				_, tb := table.Build(sorted, pick(r, 1, 64, 4096), r.Intn(3))
				var fo table.Footer
				if err := fo.Decode(tb[len(tb)-40:]); err != nil {
					return "footer: " + err.Error()
				}
				var idx table.Index
				if err := idx.Decode(tb[fo.IndexBlock.Offset : fo.IndexBlock.Offset+fo.IndexBlock.Length]); err != nil {
					return "index: " + err.Error()
				}
				var got []types.Entry
				for _, ie := range idx.Entries {
					var blk table.Data
					if err := blk.Decode(tb[ie.DataHandle.Offset : ie.DataHandle.Offset+ie.DataHandle.Length]); err != nil {
						return "data: " + err.Error()
					}
					got = append(got, blk.Entries...)
				}
				var all table.Data
				if err := all.Decode(tb[idx.DataBlock.Offset : idx.DataBlock.Offset+idx.DataBlock.Length]); err != nil {
					return "whole data region: " + err.Error()
				}
				if m := eqEntries(sorted, got); m != "" {
					return "block by block: " + m
				}
				return eqEntries(sorted, all.Entries)
			})
			emit(CodecEvent{Ev: "RoundTrip", Codec: "Table", Equal: d == "", MaxLen: maxl, Case: cls, Detail: d})
		}
		// wal record sequences
		if i%4 == 0 {
			dir := scratch("walrt")
			d = safely(func() string {
				w, err := wal.Create(dir)
				if err != nil {
					return err.Error()
				}
				var want []types.Entry
				for b := 0; b < 1+r.Intn(3); b++ {
					batch, _ := genEntries(r, kl, vl, 1+r.Intn(3))
					if err := w.Write(batch...); err != nil {
						return "write: " + err.Error()
					}
					want = append(want, batch...)
				}
				if r.Intn(2) == 0 {
					// close and reopen the log, append more, then read everything back
					path := ""
					if ents, _ := os.ReadDir(dir); len(ents) == 1 {
						path = join(dir, ents[0].Name())
					}
					if err := w.Close(); err != nil {
						return "close: " + err.Error()
					}
					w, err = wal.Open(path)
					if err != nil {
						return "reopen: " + err.Error()
					}
					for b := 0; b < 1+r.Intn(2); b++ {
						batch, _ := genEntries(r, kl, vl, 1+r.Intn(3))
						if err := w.Write(batch...); err != nil {
							return "write after reopen: " + err.Error()
						}
						want = append(want, batch...)
					}
				}
				got, err := w.Read()
				if err != nil {
					return "read: " + err.Error()
				}
				_ = w.Delete()
				for k := range got { // thrift decodes an empty value as nil or empty: both are the empty value
					if len(got[k].Value) == 0 {
						got[k].Value = []byte{}
					}
				}
				for k := range want {
					if len(want[k].Value) == 0 {
						want[k].Value = []byte{}
					}
				}
				return eqEntries(want, got)
			})
			os.RemoveAll(dir)
			emit(CodecEvent{Ev: "RoundTrip", Codec: "WAL", Equal: d == "", MaxLen: maxl, Case: cls, Detail: d})
		}
	}
	// one log read by several goroutines at once: every Read returns exactly what was written
	{
		dir := scratch("walpar")
		w, err := wal.Create(dir)
		var want []types.Entry
		if err == nil {
			for b := 0; b < 60; b++ {
				batch, _ := genEntries(r, []int{3, 40, 300}, []int{1, 200, 3000, 20000}, 1+r.Intn(4))
				if err = w.Write(batch...); err != nil {
					break
				}
				want = append(want, batch...)
			}
		}
		var pw sync.WaitGroup
		var pmu sync.Mutex
		for g := 0; g < 6 && err == nil; g++ {
			pw.Add(1)
			go func() {
				defer pw.Done()
				for j := 0; j < 4; j++ {
					d := safely(func() string {
						got, err := w.Read()
						if err != nil {
							return "read: " + err.Error()
						}
						return eqEntries(want, got)
					})
					pmu.Lock()
					emit(CodecEvent{Ev: "RoundTrip", Codec: "WAL(concurrent reads)", Equal: d == "", MaxLen: 2, Detail: d})
					pmu.Unlock()
				}
			}()
		}
		pw.Wait()
		if w != nil {
			_ = w.Delete()
		}
		os.RemoveAll(dir)
	}
	// result stability: keep what the encoders returned, let other goroutines encode and log, compare
	var wg sync.WaitGroup
	var mu sync.Mutex
	var stab []CodecEvent
	stop := make(chan struct{})
	for g := 0; g < 4; g++ { // background noise: encoders and wal writes
		wg.Add(1)
		go func(g int) {
			defer wg.Done()
			rr := rand.New(rand.NewSource(mix(*seed, 100+g)))
			dir := scratch("walnoise")
			defer os.RemoveAll(dir)
			w, _ := wal.Create(dir)
			for {
				select {
				case <-stop:
					return
				default:
				}
				es, _ := genEntries(rr, []int{3, 40, 300}, []int{1, 200, 3000}, 1+rr.Intn(5))
				blk := table.Data{Entries: es}
				_, _ = blk.Encode()
				if w != nil {
					_ = w.Write(es...)
				}
			}
		}(g)
	}
	for g := 0; g < 4; g++ {
		wg.Add(1)
		go func(g int) {
			defer wg.Done()
			rr := rand.New(rand.NewSource(mix(*seed, 200+g)))
			for i := 0; i < *n/2; i++ {
				es, _ := genEntries(rr, []int{3, 40, 300}, []int{1, 200, 3000}, 1+rr.Intn(5))
				for k := range es {
					es[k].Key = types.KeyWithTs(fmt.Sprintf("%04d", k)+es[k].Key, 1)
				}
				blk := table.Data{Entries: es}
				b1, _ := blk.Encode()
				c1 := bytes.Clone(b1)
				idx, tb := table.Build(es, 64, 0)
				ctb := bytes.Clone(tb)
				b2, _ := idx.Encode()
				c2 := bytes.Clone(b2)
				for j := 0; j < 3; j++ { // more activity of this goroutine and the others
					_, _ = blk.Encode()
				}
				// round trip while other goroutines use the same codecs
				rt := safely(func() string {
					var back table.Data
					if err := back.Decode(c1); err != nil {
						return "decode error: " + err.Error()
					}
					return eqEntries(es, back.Entries)
				})
				rt2 := safely(func() string {
					var back table.Index
					if err := back.Decode(c2); err != nil {
						return "decode error: " + err.Error()
					}
					if !reflect.DeepEqual(idx, back) {
						return "index differs"
					}
					return ""
				})
				mu.Lock()
				stab = append(stab, CodecEvent{Ev: "RoundTrip", Codec: "Data(concurrent)", Equal: rt == "", MaxLen: 2, Detail: rt},
					CodecEvent{Ev: "RoundTrip", Codec: "Index(concurrent)", Equal: rt2 == "", MaxLen: 2, Detail: rt2})
				stab = append(stab, CodecEvent{Ev: "Stable", Codec: "Data.Encode", Equal: bytes.Equal(b1, c1)},
					CodecEvent{Ev: "Stable", Codec: "table.Build", Equal: bytes.Equal(tb, ctb)},
					CodecEvent{Ev: "Stable", Codec: "Index.Encode", Equal: bytes.Equal(b2, c2)})
				mu.Unlock()
			}
		}(g)
	}
	go func() {}()
	// the checkers finish on their own; then stop the noise
	done := make(chan struct{})
	go func() {
		for {
			mu.Lock()
			nn := len(stab)
			mu.Unlock()
			if nn >= 4*(*n/2)*5 {
				close(stop)
				close(done)
				return
			}
			runtimeGosched()
		}
	}()
	<-done
	wg.Wait()
	for _, e := range stab {
		emit(e)
	}
	bw.Flush()
	f.Close()
	writeJSON(join(*out, "summary.json"), map[string]any{"traces": 1, "events": count, "offsets": []int{1}})
	return 0
}
