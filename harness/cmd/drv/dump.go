package main

import (
	"flag"
	"fmt"
	"os"
	"path/filepath"
	"sort"
	"strings"

	"github.com/B1NARY-GR0UP/originium"
	"github.com/B1NARY-GR0UP/originium/wal"
	"verif/harness/internal/dbx"
)

func init() { cmds["dump"] = cmdDump }

// dump prints the content of a data directory (wal records, tables through a recovered level
// manager) - a debugging aid for replay files.
func cmdDump(args []string) int {
	fs := flag.NewFlagSet("dump", flag.ExitOnError)
	dir := fs.String("dir", "", "")
	_ = fs.Parse(args)
	dbx.Quiet()
	ents, _ := os.ReadDir(*dir)
	var names []string
	for _, e := range ents {
		names = append(names, e.Name())
	}
	sort.Strings(names)
	for _, n := range names {
		info, _ := os.Stat(filepath.Join(*dir, n))
		fmt.Printf("%s (%d bytes)\n", n, info.Size())
		if strings.HasSuffix(n, ".log") {
			w, err := wal.Open(filepath.Join(*dir, n))
			if err != nil {
				fmt.Println("  open:", err)
				continue
			}
			es, err := w.Read()
			if err != nil {
				fmt.Println("  read:", err)
			}
			for _, e := range es {
				fmt.Printf("  %q v=%d tomb=%v len=%d\n", e.Key, e.Version, e.Tombstone, len(e.Value))
			}
			_ = w.Close()
		}
	}
	v := originium.NewVerifLevels(*dir, 4, 4, 4096, 0)
	max := v.Recover()
	fmt.Println("tables:", v.Tables(), "max version in tables:", max)
	return 0
}
