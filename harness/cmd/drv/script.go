package main

import (
	"fmt"
	"math/rand"
	"os"
	"time"

	"verif/harness/internal/dbx"
	"verif/harness/internal/kvmap"
	"verif/harness/internal/rec"
)

// A Script is one single-client scenario. It is what the random generator produces, what
// TLC behaviours are translated to, and what a replay file contains.
type Script struct {
	ID       string  `json:"id"`
	Seed     int64   `json:"seed"`
	Cfg      CfgJSON `json:"cfg"`
	Alphabet string  `json:"alphabet"`
	NKeys    int     `json:"nkeys"`
	Steps    []Step  `json:"steps"`
}

type Step struct {
	Op   string   `json:"op"`             // txn | read | idle | reopen | fl | abandon
	Puts [][2]int `json:"puts,omitempty"` // (key, value id; 0 = delete)
	N    int      `json:"n,omitempty"`    // fl: number of flusher steps to release
	Cfg  *CfgJSON `json:"cfg,omitempty"`  // reopen with another configuration
	How  string   `json:"how,omitempty"`  // abandon: discard | fail
}

type ScriptResult struct {
	ID        string         `json:"id"`
	Events    int            `json:"events"`
	DBFiles   int            `json:"db_files"`
	MaxLevel  int            `json:"max_level"`
	Levels    map[int]int    `json:"levels"`
	Reopens   int            `json:"reopens"`
	Commits   int            `json:"commits"`
	Reads     int            `json:"reads"`
	Err       string         `json:"err,omitempty"`
	Shape     map[string]int `json:"shape,omitempty"`
	Corrupt   int            `json:"corrupt_values"`
	FlSteps   int            `json:"fl_steps"`
	Diverged  int            `json:"diverged"`
	ImplTrace []string       `json:"-"`
}

// genScript draws a random single-client scenario.
func genScript(r *rand.Rand, id string, nops int) Script {
	s := Script{ID: id, Seed: r.Int63(), Cfg: randCfg(r), NKeys: 2 + r.Intn(9)}
	s.Alphabet = pick(r, "plain", "adversarial", "adversarial", "long", "binary")
	vid := 0
	reopenP := pick(r, 0.0, 0.0, 0.03, 0.1)
	idleP := pick(r, 0.0, 0.1, 0.3)
	for i := 0; i < nops; i++ {
		x := r.Float64()
		switch {
		case x < reopenP:
			st := Step{Op: "reopen"}
			if r.Intn(2) == 0 {
				c := randCfg(r)
				c.L0TargetNum, c.LevelRatio = s.Cfg.L0TargetNum, s.Cfg.LevelRatio // level geometry stays fixed (C02)
				st.Cfg = &c
			}
			s.Steps = append(s.Steps, st)
		case x < reopenP+idleP:
			s.Steps = append(s.Steps, Step{Op: "idle"})
		default:
			n := 1 + r.Intn(3)
			if r.Intn(8) == 0 {
				n = 1 + r.Intn(s.NKeys)
			}
			st := Step{Op: "txn"}
			if r.Intn(12) == 0 {
				st.Op = "abandon"
				st.How = pick(r, "discard", "fail")
			}
			for j := 0; j < n; j++ {
				k := 1 + r.Intn(s.NKeys)
				y := r.Intn(10)
				switch {
				case y < 2:
					st.Puts = append(st.Puts, [2]int{k, 0})
				case y == 2:
					st.Puts = append(st.Puts, [2]int{k, kvmap.EmptyBase + k})
				default:
					vid++
					st.Puts = append(st.Puts, [2]int{k, vid})
				}
			}
			s.Steps = append(s.Steps, st)
		}
		s.Steps = append(s.Steps, Step{Op: "read"})
	}
	s.Steps = append(s.Steps, Step{Op: "idle"}, Step{Op: "read"}, Step{Op: "reopen"}, Step{Op: "read"})
	return s
}

var errFail = fmt.Errorf("closure failed on purpose")

// runScript executes a script against the real engine in a fresh directory and returns the
// recorded API trace.
func runScript(s Script) (tr *rec.Trace, res ScriptResult) {
	res.ID = s.ID
	dir := scratch("seq")
	defer os.RemoveAll(dir)
	km := kvmap.New(s.Alphabet, s.NKeys)
	tr = &rec.Trace{}
	cfg := s.Cfg
	st, err := dbx.Open(dir, cfg.Config(), tr, km, true)
	if err != nil {
		res.Err = err.Error()
		return
	}
	c := st.Sess(1)
	readAll := func() {
		c.Begin(false)
		for k := 1; k <= s.NKeys; k++ {
			if c.Get(k) == -2 {
				res.Corrupt++
			}
			res.Reads++
		}
		c.Discard()
	}
	for _, step := range s.Steps {
		switch step.Op {
		case "txn", "abandon":
			c.Begin(true)
			for _, p := range step.Puts {
				c.Put(p[0], p[1])
			}
			if step.Op == "txn" {
				if c.Commit() == "ok" {
					res.Commits++
				}
			} else {
				c.Discard()
			}
		case "read":
			readAll()
		case "idle":
			waitIdle(st, 5*time.Second)
		case "reopen":
			st.Close()
			if step.Cfg != nil {
				cfg = *step.Cfg
			}
			st, err = dbx.Open(dir, cfg.Config(), tr, km, false)
			if err != nil {
				res.Err = err.Error()
				return
			}
			c = st.Sess(1)
			res.Reopens++
		}
	}
	waitIdle(st, 5*time.Second)
	st.Close()
	db, _, _, lv := countFiles(dir)
	res.DBFiles, res.Levels = db, lv
	for l := range lv {
		if l > res.MaxLevel {
			res.MaxLevel = l
		}
	}
	res.Events = tr.Len()
	return
}
