package main

import (
	"fmt"
	"math/rand"
	"os"
	"strings"
	"sync"
	"sync/atomic"
	"time"

	"verif/harness/internal/dbx"
	"verif/harness/internal/gate"
	"verif/harness/internal/kvmap"
	"verif/harness/internal/rec"
)

// A Script is one single-client scenario. It is what the random generator produces, what
// TLC behaviours are translated to, and what a replay file contains.
type Script struct {
	ID       string  `json:"id"`
	Mode     string  `json:"mode"` // free: flusher runs freely; steer: flusher stages released by "fl" steps
	Impl     bool    `json:"impl"` // also record the implementation-level stream for TraceStore.tla
	Mid      bool    `json:"mid"`  // read every key from another goroutine while the flusher is held inside a stage
	Seed     int64   `json:"seed"`
	Cfg      CfgJSON `json:"cfg"`
	Alphabet string  `json:"alphabet"`
	NKeys    int     `json:"nkeys"`
	Steps    []Step  `json:"steps"`
}

type Step struct {
	Op   string   `json:"op"`             // txn | read | idle | reopen | fl | abandon | misuse | ropen | rread | rclose
	Puts [][2]int `json:"puts,omitempty"` // (key, value id; 0 = delete)
	N    int      `json:"n,omitempty"`    // fl: number of flusher steps to release
	Cfg  *CfgJSON `json:"cfg,omitempty"`  // reopen with another configuration
	How  string   `json:"how,omitempty"`  // abandon: discard | fail
}

type ScriptResult struct {
	ID        string         `json:"id"`
	Events    int            `json:"events"`
	DBFiles   int            `json:"db_files"`
	MaxLevel  int            `json:"max_level"`
	Levels    map[int]int    `json:"levels"`
	Reopens   int            `json:"reopens"`
	Commits   int            `json:"commits"`
	Reads     int            `json:"reads"`
	Err       string         `json:"err,omitempty"`
	Shape     map[string]int `json:"shape,omitempty"`
	Corrupt   int            `json:"corrupt_values"`
	FlSteps   int            `json:"fl_steps"`
	Abandons  int            `json:"abandons"`
	Misuse    int            `json:"misuse"`
	Readers   int            `json:"readers"`
	MidReads  int            `json:"mid_reads"`
	Impl      []ImplEvent    `json:"-"`
	Diverged  int            `json:"diverged"`
	ImplTrace []string       `json:"-"`
}

// genScript draws a random single-client scenario.
// profile: c01 (writes, flusher steps, idle), c02 (plus close/reopen cycles), c08 (plus abandoned
// transactions and misuse calls), "" (everything).
func genScript(r *rand.Rand, id string, nops int, profile string) Script {
	s := Script{ID: id, Seed: r.Int63(), Cfg: randCfg(r), NKeys: 2 + r.Intn(9)}
	s.Alphabet = pick(r, "plain", "adversarial", "adversarial", "long", "binary")
	vid := 0
	reopenP := pick(r, 0.0, 0.0, 0.03, 0.1)
	idleP := pick(r, 0.0, 0.1, 0.3)
	abandonP, misuseP := 1.0/12, 0.0
	switch profile {
	case "c01":
		reopenP, abandonP = 0, 0
	case "c02":
		reopenP, abandonP = pick(r, 0.05, 0.1, 0.25), 0
	case "c08":
		reopenP, abandonP, misuseP = pick(r, 0.0, 0.05), pick(r, 0.2, 0.4), 0.1
	case "c05":
		reopenP, abandonP = 0, 0
		s.Mode = "steer"
	}
	// long-lived readers (profile c05): workers 2..4 hold a snapshot open over many commits,
	// flusher stages and compactions and re-read every key after every step
	open := map[int]bool{}
	rsteps := func() {
		for w := 2; w <= 4; w++ {
			if open[w] {
				s.Steps = append(s.Steps, Step{Op: "rread", N: w})
			}
		}
	}
	if s.Mode == "" {
		s.Mode = pick(r, "free", "steer", "steer")
	}
	flP := 0.0
	if s.Mode == "steer" {
		flP = pick(r, 0.15, 0.3, 0.5)
		idleP = pick(r, 0.0, 0.02, 0.1)
	}
	for i := 0; i < nops; i++ {
		x := r.Float64()
		if s.Mode == "steer" {
			// release flusher stages one at a time, reading everything after each
			for r.Float64() < flP {
				s.Steps = append(s.Steps, Step{Op: "fl", N: 1}, Step{Op: "read"})
				rsteps()
			}
		}
		if profile == "c05" {
			w := 2 + r.Intn(3)
			switch {
			case !open[w] && r.Intn(4) == 0:
				// often right after a finished reader at the same timestamp (the "read" step before)
				s.Steps = append(s.Steps, Step{Op: "ropen", N: w, How: pick(r, "ro", "ro", "rw")})
				open[w] = true
			case open[w] && r.Intn(12) == 0:
				s.Steps = append(s.Steps, Step{Op: "rclose", N: w})
				open[w] = false
			}
		}
		switch {
		case x < reopenP:
			st := Step{Op: "reopen"}
			if r.Intn(2) == 0 {
				c := randCfg(r)
				c.L0TargetNum, c.LevelRatio = s.Cfg.L0TargetNum, s.Cfg.LevelRatio // level geometry stays fixed (C02)
				st.Cfg = &c
			}
			s.Steps = append(s.Steps, st)
		case x < reopenP+idleP:
			s.Steps = append(s.Steps, Step{Op: "idle"})
		default:
			n := 1 + r.Intn(3)
			if r.Intn(8) == 0 {
				n = 1 + r.Intn(s.NKeys)
			}
			st := Step{Op: "txn"}
			if r.Float64() < abandonP {
				st.Op = "abandon"
				st.How = pick(r, "discard", "fail", "discard-read")
			}
			if r.Float64() < misuseP {
				s.Steps = append(s.Steps, Step{Op: "misuse", How: pick(r, "readonly", "afterdiscard", "emptykey", "commit2", "closed", "emptycommit", "afterconflict"),
					Puts: [][2]int{{1 + r.Intn(s.NKeys), 700000 + i}}})
			}
			for j := 0; j < n; j++ {
				k := 1 + r.Intn(s.NKeys)
				y := r.Intn(10)
				switch {
				case y < 2:
					st.Puts = append(st.Puts, [2]int{k, 0})
				case y == 2:
					st.Puts = append(st.Puts, [2]int{k, kvmap.EmptyBase + k})
				default:
					vid++
					st.Puts = append(st.Puts, [2]int{k, vid})
				}
			}
			s.Steps = append(s.Steps, st)
		}
		s.Steps = append(s.Steps, Step{Op: "read"})
		rsteps()
	}
	s.Impl = s.Mode == "steer" && (profile == "c01" || profile == "c05")
	s.Mid = s.Mode == "steer" && (profile == "c01" || profile == "c05") && r.Intn(2) == 0
	s.Steps = append(s.Steps, Step{Op: "idle"}, Step{Op: "read"})
	rsteps()
	for w := range open {
		if open[w] {
			s.Steps = append(s.Steps, Step{Op: "rclose", N: w})
		}
	}
	if profile != "c01" {
		s.Steps = append(s.Steps, Step{Op: "reopen"}, Step{Op: "read"})
	}
	return s
}

var errFail = fmt.Errorf("closure failed on purpose")

// runner executes one script; with ctl != nil hooks are recorded and (Mode "steer") the
// flusher is parked at its yield points and released by "fl" steps.
type runner struct {
	s      Script
	ctl    *gate.Ctl
	dir    string
	tr     *rec.Trace
	km     *kvmap.Map
	st     *dbx.Store
	c      *dbx.Sess
	cfg    CfgJSON
	res    *ScriptResult
	keep   bool              // keep the directory
	rd     map[int]*dbx.Sess // long-lived readers
	closes int

	// mid-stage reads (Script.Mid): while the script waits for a released flusher stage, the
	// flusher is held before each of its file-system operations and worker 5 reads every key
	inFl    atomic.Bool
	midBusy atomic.Bool
	midWG   sync.WaitGroup

	// mid-commit reader (Script.Mid): a transaction that begins while a commit is between its
	// decision and its writes (worker 6) reads every key at once and again after the commit returned
	mcResume chan struct{}
	mcDone   chan struct{}
}

// midCommit runs on the committing goroutine at cm.apply.pre. With the commit-mark wait of Begin
// the reader simply blocks until the commit is finished; whatever it sees, it must see it twice.
func (r *runner) midCommit() {
	if r.mcDone != nil {
		return
	}
	r.mcResume, r.mcDone = make(chan struct{}), make(chan struct{})
	first := make(chan struct{})
	go func(resume, done chan struct{}) {
		defer close(done)
		c := r.st.Sess(6)
		c.Begin(false)
		for k := 1; k <= r.s.NKeys; k++ {
			c.Get(k)
		}
		close(first)
		<-resume
		for k := 1; k <= r.s.NKeys; k++ {
			c.Get(k)
		}
		c.Discard()
	}(r.mcResume, r.mcDone)
	select {
	case <-first:
	case <-time.After(4 * time.Millisecond):
	}
}

// midCommitJoin: the commit has returned; let the reader read again and finish.
func (r *runner) midCommitJoin() {
	if r.mcDone == nil {
		return
	}
	close(r.mcResume)
	<-r.mcDone
	r.mcResume, r.mcDone = nil, nil
	r.res.MidReads++
}

// midStage runs on the flusher's goroutine, before one of its file-system operations (it may
// hold the level lock: the reader then simply waits for it, so this only waits briefly).
func (r *runner) midStage(op, name string, n int) {
	if !r.inFl.Load() || !r.midBusy.CompareAndSwap(false, true) {
		return
	}
	done := make(chan struct{})
	r.midWG.Add(1)
	go func() {
		defer r.midWG.Done()
		defer r.midBusy.Store(false)
		defer close(done)
		c := r.st.Sess(5)
		c.Begin(false)
		for k := 1; k <= r.s.NKeys; k++ {
			if c.Get(k) == -2 {
				r.res.Corrupt++
			}
		}
		c.Discard()
		r.res.MidReads++
	}()
	select {
	case <-done:
	case <-time.After(4 * time.Millisecond):
	}
}

// flIdle: the flusher is parked at fl.wait and nothing is queued.
func (r *runner) flIdle() bool {
	if r.ctl.Where() != "fl.wait" {
		return false
	}
	_, q, _ := r.st.DB.VerifShape()
	return q == 0
}

// flStep releases one flusher stage; false if the flusher is idle.
func (r *runner) flStep() bool {
	r.ctl.WaitParked()
	if r.flIdle() {
		return false
	}
	r.inFl.Store(true)
	r.ctl.Step()
	r.inFl.Store(false)
	r.midWG.Wait()
	r.res.FlSteps++
	return true
}

// onClient keeps a steered run live: the client is about to hand something to the parked
// flusher (a full or unbuffered queue, the close signal), so the flusher is moved to where
// it can take it.
func (r *runner) onClient(point string, args []any) {
	if !r.ctl.Steering() {
		return
	}
	switch point {
	case "cm.apply.pre":
		if r.s.Mid && r.s.Seed%3 != 0 {
			r.midCommit()
		}
	case "cm.enq.pre", "cl.enq.pre":
		n, capa := args[0].(int), args[1].(int)
		if n < capa {
			return
		}
		if capa == 0 {
			for r.ctl.WaitParked() != "fl.wait" {
				r.ctl.Step()
				r.res.FlSteps++
			}
			r.ctl.Release() // into the select; it receives what we send next
			return
		}
		for {
			r.ctl.WaitParked()
			at := r.ctl.Step()
			r.res.FlSteps++
			if at == "fl.take" {
				return
			}
		}
	case "cm.enq", "cl.enq":
		r.ctl.WaitParked()
	case "cl.signal.pre":
		// Close hands over on an unbuffered channel: finish the current cycle, then let the
		// flusher run freely until it exits
		for r.ctl.WaitParked() != "fl.wait" {
			r.ctl.Step()
			r.res.FlSteps++
		}
		// sometimes the flusher is slow while Close runs: whatever Close does itself then overtakes
		// the work that is still queued
		r.closes++
		r.ctl.FlDelay = []time.Duration{0, 0, 2 * time.Millisecond, 8 * time.Millisecond}[(int(r.s.Seed%7)+r.closes)%4]
		r.ctl.SteerFlusher(false)
	}
}

func (r *runner) open(first bool) error {
	if r.ctl != nil {
		r.ctl.FlDelay = 0
		r.ctl.NewDB()
		r.ctl.Adopt(r.dir)
		r.ctl.SteerFlusher(r.s.Mode == "steer")
	}
	st, err := dbx.Open(r.dir, r.cfg.Config(), r.tr, r.km, first)
	if err != nil {
		return err
	}
	r.st = st
	r.c = st.Sess(1)
	if r.ctl != nil && r.s.Mode == "steer" {
		r.ctl.WaitParked()
	}
	return nil
}

func (r *runner) drain() {
	if r.ctl != nil && r.s.Mode == "steer" {
		for r.flStep() {
		}
		return
	}
	waitIdle(r.st, 5*time.Second)
}

func (r *runner) readAll() {
	r.c.Begin(false)
	for k := 1; k <= r.s.NKeys; k++ {
		if r.c.Get(k) == -2 {
			r.res.Corrupt++
		}
		r.res.Reads++
	}
	r.c.Discard()
}

func (r *runner) step(step Step) error {
	err := r.step1(step)
	r.midCommitJoin() // a commit of this step may have started the mid-commit reader
	return err
}

func (r *runner) step1(step Step) error {
	switch step.Op {
	case "txn", "abandon":
		r.c.Begin(true)
		for _, p := range step.Puts {
			r.c.Put(p[0], p[1])
		}
		switch {
		case step.Op == "txn":
			ok := r.c.Commit() == "ok"
			r.midCommitJoin()
			if ok {
				r.res.Commits++
			}
		case step.How == "fail": // DB.Update whose closure fails: nothing may be applied
			r.c.Discard()
			r.c.UpdateFailing(step.Puts, errFail)
			if len(step.Puts) > 0 && step.Puts[0][1]%2 == 0 {
				// the closure kept the *Txn: it is finished, every further use must say so
				p := step.Puts[0]
				r.c.Put(p[0], p[1])
				r.c.Put(p[0], 0)
				r.c.Get(p[0])
				r.c.Commit()
			}
		case step.How == "discard-read":
			for _, p := range step.Puts {
				r.c.Get(p[0])
			}
			r.c.Discard()
		default:
			r.c.Discard()
		}
		if step.Op == "abandon" {
			r.res.Abandons++
		}
	case "misuse":
		r.res.Misuse++
		k, v := step.Puts[0][0], step.Puts[0][1]
		switch step.How {
		case "readonly":
			r.c.Begin(false)
			r.c.Put(k, v)
			r.c.Put(k, 0)
			r.c.Get(k)
			r.c.Discard()
		case "afterdiscard":
			r.c.Begin(true)
			r.c.Put(k, v)
			r.c.Discard()
			r.c.Put(k, v+1)
			r.c.Put(k, 0)
			r.c.Get(k)
			r.c.Commit()
			r.c.Discard()
		case "emptykey":
			r.c.Begin(true)
			r.c.Put(0, v)
			r.c.Put(0, 0)
			r.c.Commit()
		case "commit2":
			r.c.Begin(true)
			r.c.Put(k, v)
			if r.c.Commit() == "ok" {
				r.res.Commits++
			}
			r.c.Commit()
			r.c.Put(k, v+1)
			r.c.Put(k, 0)
			r.c.Discard()
			r.c.Get(k)
			r.c.Commit()
		case "emptycommit":
			// an update transaction committed without writes is finished like any other
			r.c.Begin(true)
			r.c.Get(k)
			r.c.Commit()
			r.c.Put(k, v)
			r.c.Put(k, 0)
			r.c.Commit()
			r.c.Discard()
		case "afterconflict":
			// a refused transaction stays finished, also after the conflicting commit has been forgotten
			base := 800000 + (v-700000)*10
			k2 := 1 + k%r.s.NKeys
			vic := r.st.Sess(2)
			vic.Begin(true)
			vic.Get(k)
			r.c.Begin(true)
			r.c.Put(k, base)
			if r.c.Commit() == "ok" {
				r.res.Commits++
			}
			vic.Put(k2, base+1)
			vic.Commit()
			for i := 0; i < 3; i++ {
				r.c.Begin(true)
				r.c.Put(k, base+2+i)
				if r.c.Commit() == "ok" {
					r.res.Commits++
				}
				r.readAll()
			}
			vic.Put(k2, base+6)
			vic.Put(k, 0)
			vic.Commit()
			vic.Discard()
		case "closed":
			r.drain()
			r.st.Close()
			r.c.ClosedCall(false)
			r.c.ClosedCall(true)
			if err := r.open(false); err != nil {
				return err
			}
			r.res.Reopens++
		}
	case "read":
		r.readAll()
	case "idle":
		r.drain()
	case "fl":
		if r.ctl != nil && r.s.Mode == "steer" {
			for i := 0; i < step.N; i++ {
				if !r.flStep() {
					break
				}
			}
		}
	case "ropen":
		if r.rd == nil {
			r.rd = map[int]*dbx.Sess{}
		}
		c := r.st.Sess(step.N)
		c.Begin(step.How == "rw")
		r.rd[step.N] = c
		r.res.Readers++
	case "rread":
		if c := r.rd[step.N]; c != nil {
			for k := 1; k <= r.s.NKeys; k++ {
				if c.Get(k) == -2 {
					r.res.Corrupt++
				}
				r.res.Reads++
			}
		}
	case "rclose":
		if c := r.rd[step.N]; c != nil {
			c.Discard()
			delete(r.rd, step.N)
		}
	case "reopen":
		for w, c := range r.rd {
			c.Discard()
			delete(r.rd, w)
		}
		r.st.Close()
		if step.Cfg != nil {
			r.cfg = *step.Cfg
		}
		if err := r.open(false); err != nil {
			return err
		}
		r.res.Reopens++
	}
	return nil
}

// runScript executes a script against the real engine in a fresh directory and returns the
// recorded API trace.
// ImplEvent: vocabulary of specs/TraceStore.tla
type ImplEvent struct {
	Ev string `json:"ev"`
	W  int    `json:"w"`
	K  int    `json:"k"`
	V  int    `json:"v"`
	N  int    `json:"n"`
}

// implStream turns the merged hook + API stream of a steered run into TraceStore events.
func implStream(evs []gate.Event) []ImplEvent {
	var out []ImplEvent
	num := func(x any) int {
		switch v := x.(type) {
		case int:
			return v
		case uint64:
			return int(v)
		case int64:
			return int(v)
		}
		return 0
	}
	for _, e := range evs {
		if strings.HasPrefix(e.Point, "cl.") {
			break // Close hands the last memtable over on its own path; the comparison ends here
		}
		switch e.Point {
		case "api":
			a := e.Args[0].(rec.Event)
			if a.W == 6 {
				continue // the mid-commit reader: its Begin returns when the commit mark is done, which the
				// engine does right before the cm.done hook reports it - judged by the contract only
			}
			switch a.Ev {
			case "BeginResp":
				out = append(out, ImplEvent{Ev: "begin", W: a.W})
			case "Put":
				if a.Res == "ok" && a.K > 0 {
					out = append(out, ImplEvent{Ev: "put", W: a.W, K: a.K, V: a.V})
				}
			case "Get":
				out = append(out, ImplEvent{Ev: "get", W: a.W, K: a.K, V: a.V})
			case "Discard", "CommitResp":
				out = append(out, ImplEvent{Ev: "drop", W: a.W})
			}
		case "cm.applied":
			out = append(out, ImplEvent{Ev: "applied", N: num(e.Args[0])})
		case "cm.rotated":
			out = append(out, ImplEvent{Ev: "rotated", N: num(e.Args[0])})
		case "cm.enq":
			out = append(out, ImplEvent{Ev: "enq", N: num(e.Args[0])})
		case "cm.done":
			out = append(out, ImplEvent{Ev: "done"})
		case "fl.take":
			out = append(out, ImplEvent{Ev: "take", N: num(e.Args[0])})
		case "fl.flushed":
			out = append(out, ImplEvent{Ev: "flushed"})
		case "lm.discard":
			out = append(out, ImplEvent{Ev: "discard", N: num(e.Args[0])})
		case "fl.compacted":
			out = append(out, ImplEvent{Ev: "compacted"})
		case "fl.removed.locked":
			out = append(out, ImplEvent{Ev: "removed", N: num(e.Args[0])})
		}
	}
	return out
}

func runScript(s Script, ctl *gate.Ctl) (tr *rec.Trace, res ScriptResult) {
	res.ID = s.ID
	dir := scratch("seq")
	defer os.RemoveAll(dir)
	tr = &rec.Trace{}
	implOn := ctl != nil && s.Mode == "steer" && s.Impl
	if implOn {
		ctl.ResetEvents()
		ctl.Record = true
		tr.Mirror = func(e rec.Event) { ctl.Note("api", e) }
		defer func() { ctl.Record = false }()
	}
	r := &runner{s: s, ctl: ctl, dir: dir, tr: tr, km: kvmap.New(s.Alphabet, s.NKeys), cfg: s.Cfg, res: &res}
	if ctl == nil {
		r.s.Mode = "free"
	} else {
		ctl.OnClient = r.onClient
		if s.Mid && s.Mode == "steer" {
			ctl.OnFsPre = r.midStage
			defer func() { ctl.OnFsPre = nil }()
		}
	}
	if err := r.open(true); err != nil {
		res.Err = err.Error()
		return
	}
	for _, step := range s.Steps {
		if err := r.step(step); err != nil {
			res.Err = err.Error()
			return
		}
	}
	if implOn {
		// the comparison ends before the final drain and Close (Close has its own hand-off path)
		tr.Mirror = nil
		ctl.Record = false
		res.Impl = implStream(ctl.Events())
	}
	r.drain()
	r.st.Close()
	db, _, _, lv := countFiles(dir)
	res.DBFiles, res.Levels = db, lv
	for l := range lv {
		if l > res.MaxLevel {
			res.MaxLevel = l
		}
	}
	res.Events = tr.Len()
	return
}
