package main

import (
	"flag"
	"fmt"
	"math/rand"
	"os"
	"syscall"
	"time"

	"verif/harness/internal/dbx"
	"verif/harness/internal/kvmap"
	"verif/harness/internal/rec"
)

func init() { cmds["fsaudit"] = cmdFsAudit }

// fsaudit runs a single-client workload (commits, rotations, flushes, compactions, close,
// reopen with recovery of wal files) meant to be executed under strace: after every Commit that
// returned nil it issues write(/dev/null, "VERIF-ACK n"), which shows up in the syscall log at
// the position of the acknowledgement.
func cmdFsAudit(args []string) int {
	fs := flag.NewFlagSet("fsaudit", flag.ExitOnError)
	dir := fs.String("dir", "", "data directory (fresh for phase 1)")
	seed := fs.Int64("seed", 1, "")
	n := fs.Int("n", 20, "commits in this phase")
	phase := fs.Int("phase", 1, "1: open a fresh directory, commit, die without Close; 2: reopen (recovery), commit, Close")
	_ = fs.Parse(args)
	null, err := os.OpenFile("/dev/null", os.O_WRONLY, 0)
	if err != nil {
		fmt.Fprintln(os.Stderr, err)
		return 2
	}
	mark := func(s string) { _, _ = syscall.Write(int(null.Fd()), []byte("VERIF-"+s+"\n")) }
	r := rand.New(rand.NewSource(mix(*seed, 7)))
	cfg := CfgJSON{SkipListMaxLevel: 4, SkipListP: 0.5, MemtableByteThreshold: pick(r, 60, 150, 400),
		ImmutableBuffer: pick(r, 0, 1, 2), DataBlockByteThreshold: pick(r, 40, 4096), L0TargetNum: pick(r, 1, 2), LevelRatio: pick(r, 1, 2)}
	r = rand.New(rand.NewSource(mix(*seed, 70+*phase)))
	km := kvmap.New("plain", 4)
	tr := &rec.Trace{}
	mark("RECOVERY")
	st, err := dbx.Open(*dir, cfg.Config(), tr, km, true)
	if err != nil {
		fmt.Fprintln(os.Stderr, err)
		return 2
	}
	mark("OPEN")
	c := st.Sess(1)
	for i := 1; i <= *n; i++ {
		c.Begin(true)
		for j := 0; j < 1+r.Intn(3); j++ {
			c.Put(1+r.Intn(4), (*phase*1000+i)*10+j)
		}
		if c.Commit() == "ok" {
			mark(fmt.Sprintf("ACK %d", *phase*1000+i))
		}
	}
	if *phase == 1 {
		// die without Close: the wal files of the active and the queued memtables stay behind
		mark("DIE")
		os.Exit(0)
	}
	waitIdle(st, 5*time.Second)
	st.Close()
	mark("CLOSED")
	return 0
}
