package main

import (
	"bufio"
	"encoding/json"
	"flag"
	"fmt"
	"math"
	"math/rand"
	"os"
	"sort"
	"strings"

	"github.com/B1NARY-GR0UP/originium/pkg/skiplist"
	"github.com/B1NARY-GR0UP/originium/types"
)

func init() { cmds["skl"] = cmdSkl }

// scripted source: rand.Rand.Float64() = float64(Int63()) / (1<<63).
// randomLevel draws until a value >= p (or maxLevel is reached and one more draw is made):
// height h = h-1 draws below p, then one draw above.
const sklHigh = int64(0x7fffffff00000000) // Float64 = 0.9999999995
type scripted struct{ q []int64 }

func (s *scripted) Int63() int64 {
	if len(s.q) == 0 {
		return sklHigh
	}
	v := s.q[0]
	s.q = s.q[1:]
	return v
}
func (s *scripted) Seed(int64) {}
func (s *scripted) height(h int) {
	for i := 0; i < h-1; i++ {
		s.q = append(s.q, 0)
	}
	s.q = append(s.q, sklHigh)
}

type SklOp struct {
	Op   string `json:"op"`
	K    int    `json:"k"`
	Ts   int    `json:"ts"`
	V    int    `json:"v"`
	Tomb bool   `json:"tomb"`
	H    int    `json:"h"`
}
type SklCell struct {
	K    int  `json:"k"`
	Ts   int  `json:"ts"`
	V    int  `json:"v"`
	Tomb bool `json:"tomb"`
}
type SklReplay struct {
	Path   []SklOp     `json:"path"`
	Towers [][]SklCell `json:"towers"`
}

var sklKeys = map[string][]string{
	"plain":       {"", "k1", "k2", "k3", "k4", "k5", "k6"},
	"adversarial": {"", "a", "a!", "a@", "a@1", "aa", "b"},
}

// version maps (monotone): model version i stands for sklTs[name][i]. "digits" crosses digit
// counts (9 < 10, 99 < 100: numeric, not byte order), "huge" crosses 2^63.
var sklTs = map[string][]uint64{
	"digits": {0, 1, 2, 9, 10, 11, 99, 100, 101, 1000},
	"huge":   {0, 1, 9, 10, 1 << 62, 1<<63 - 1, 1 << 63, 1<<63 + 1, math.MaxUint64 - 1, math.MaxUint64},
}

// an alphabet name is "<keys>" or "<keys>:<version map>"
func splitAlpha(alpha string) (string, []uint64) {
	if i := strings.IndexByte(alpha, ':'); i >= 0 {
		return alpha[:i], sklTs[alpha[i+1:]]
	}
	return alpha, nil
}

func sklKey(alpha string, k, ts int) string {
	base, tm := splitAlpha(alpha)
	if tm != nil {
		return types.KeyWithTs(sklKeys[base][k], tm[ts])
	}
	return types.KeyWithTs(sklKeys[base][k], uint64(ts))
}

// sklPool hands out values that are sub-slices of ONE buffer (as a caller that carves values out
// of a read buffer does): the list must never write into a value it was given.
type sklPool struct{ buf []byte }

func newSklPool() *sklPool {
	p := &sklPool{}
	for v := 1; v <= 9; v++ {
		p.buf = append(p.buf, fmt.Sprintf("value-%d", v)...)
	}
	return p
}

func (p *sklPool) val(v int) []byte {
	if v < 1 || v > 9 {
		return []byte(fmt.Sprintf("value-%d", v))
	}
	return p.buf[7*(v-1) : 7*v]
}

func cellOf(alpha string, e types.Entry) SklCell {
	if !strings.Contains(e.Key, "@") {
		return SklCell{K: -1, Ts: -1, V: -1}
	}
	uk := types.ParseKey(e.Key)
	base, tm := splitAlpha(alpha)
	k := -1
	for i, s := range sklKeys[base] {
		if i > 0 && s == uk {
			k = i
		}
	}
	v := -1
	fmt.Sscanf(string(e.Value), "value-%d", &v)
	ts := int(types.ParseTs(e.Key))
	if tm != nil {
		ts = -1
		for i, x := range tm {
			if x == types.ParseTs(e.Key) {
				ts = i
			}
		}
	}
	return SklCell{K: k, Ts: ts, V: v, Tomb: e.Tombstone}
}

// replayOne builds the structure by replaying the path on a real skiplist with scripted tower
// heights and compares towers and every read API with the expectation exported by TLC.
func replayOne(r SklReplay, maxLevel int, alpha string, K, T int) string {
	src := &scripted{}
	pool := newSklPool()
	s := skiplist.New(maxLevel, 0.5)
	s.VerifSetRandSource(src)
	for _, op := range r.Path {
		key := sklKey(alpha, op.K, op.Ts)
		if op.Op == "set" {
			src.q = nil
			src.height(op.H)
			s.Set(types.Entry{Key: key, Value: pool.val(op.V), Tombstone: op.Tomb, Version: int64(op.Ts)})
		} else {
			s.Delete(key)
		}
	}
	tw := s.VerifTowers()
	for i := 0; i < maxLevel; i++ {
		var got []SklCell
		for _, e := range tw[i] {
			got = append(got, cellOf(alpha, e))
		}
		var want []SklCell
		if i < len(r.Towers) {
			want = r.Towers[i]
		}
		if fmt.Sprint(got) != fmt.Sprint(want) {
			return fmt.Sprintf("level %d: towers differ: real %v, spec %v", i+1, got, want)
		}
	}
	// reads against the sorted map given by the spec's lowest level
	ref := r.Towers[0]
	all := s.All()
	if len(all) != len(ref) {
		return fmt.Sprintf("All: %d entries, spec %d", len(all), len(ref))
	}
	for i, e := range all {
		if cellOf(alpha, e) != ref[i] {
			return fmt.Sprintf("All[%d] = %v, spec %v", i, cellOf(alpha, e), ref[i])
		}
	}
	less := func(a SklCell, k, ts int) bool { return a.K < k || (a.K == k && a.Ts > ts) }
	for k := 1; k <= K; k++ {
		for ts := 0; ts <= T+1; ts++ {
			key := sklKey(alpha, k, ts)
			// Get
			e, ok := s.Get(key)
			var want *SklCell
			for i := range ref {
				if ref[i].K == k && ref[i].Ts == ts {
					want = &ref[i]
				}
			}
			if ok != (want != nil) || (ok && cellOf(alpha, e) != *want) {
				return fmt.Sprintf("Get(%d@%d) = %v,%v spec %v", k, ts, cellOf(alpha, e), ok, want)
			}
			// LowerBound
			e, ok = s.LowerBound(key)
			want = nil
			for i := range ref {
				if !less(ref[i], k, ts) {
					want = &ref[i]
					break
				}
			}
			if ok != (want != nil) || (ok && cellOf(alpha, e) != *want) {
				return fmt.Sprintf("LowerBound(%d@%d) = %v,%v spec %v", k, ts, cellOf(alpha, e), ok, want)
			}
			// Scan [key, end)
			for k2 := k; k2 <= K; k2++ {
				for ts2 := 0; ts2 <= T+1; ts2 += T + 1 {
					got := s.Scan(key, sklKey(alpha, k2, ts2))
					var w []SklCell
					for i := range ref {
						if !less(ref[i], k, ts) && less(ref[i], k2, ts2) {
							w = append(w, ref[i])
						}
					}
					var g []SklCell
					for _, e := range got {
						g = append(g, cellOf(alpha, e))
					}
					if fmt.Sprint(g) != fmt.Sprint(w) {
						return fmt.Sprintf("Scan(%d@%d, %d@%d) = %v spec %v", k, ts, k2, ts2, g, w)
					}
				}
			}
		}
	}
	return ""
}

// ---- random long sequences recorded for TraceSortedMap.tla
type SmEvent struct {
	Ev    string `json:"ev"`
	K     int    `json:"k"`
	Ts    int    `json:"ts"`
	V     int    `json:"v"`
	Tomb  bool   `json:"tomb"`
	Found bool   `json:"found"`
	Rk    int    `json:"rk"`
	Rts   int    `json:"rts"`
	Rv    int    `json:"rv"`
	Rtomb bool   `json:"rtomb"`
	K2    int    `json:"k2"`
	Ts2   int    `json:"ts2"`
	N     int    `json:"n"`
	Sum   int    `json:"sum"`
}

func checksum(alpha string, es []types.Entry) int {
	sum := 0
	for i := len(es) - 1; i >= 0; i-- { // same recursion as Sum in the spec: s(i) = (i*term + s(i+1)) mod p
		c := cellOf(alpha, es[i])
		t := 0
		if c.Tomb {
			t = 1
		}
		sum = ((i+1)*(c.K*1000+c.Ts*10+c.V*3+t) + sum) % 1000003
	}
	return sum
}

func randomSkl(r *rand.Rand, nops int) ([]SmEvent, map[string]any) {
	maxLevel := pick(r, 1, 2, 3, 5, 9, 12)
	p := pick(r, 0.01, 0.25, 0.5, 0.9, 0.99)
	alpha := pick(r, "plain", "adversarial") + pick(r, "", ":digits", ":huge")
	K, T := 2+r.Intn(4), 2+r.Intn(5)
	pool := newSklPool()
	s := skiplist.New(maxLevel, p)
	var ev []SmEvent
	for i := 0; i < nops; i++ {
		k, ts := 1+r.Intn(K), 1+r.Intn(T)
		key := sklKey(alpha, k, ts)
		switch x := r.Intn(20); {
		case x < 9:
			v, tomb := 1+r.Intn(9), r.Intn(4) == 0
			s.Set(types.Entry{Key: key, Value: pool.val(v), Tombstone: tomb, Version: int64(ts)})
			ev = append(ev, SmEvent{Ev: "Set", K: k, Ts: ts, V: v, Tomb: tomb})
		case x < 11:
			ok := s.Delete(key)
			ev = append(ev, SmEvent{Ev: "Del", K: k, Ts: ts, Found: ok})
		case x < 14:
			ts = r.Intn(T + 2)
			e, ok := s.Get(sklKey(alpha, k, ts))
			c := cellOf(alpha, e)
			ev = append(ev, SmEvent{Ev: "Get", K: k, Ts: ts, Found: ok, V: c.V, Tomb: c.Tomb})
		case x < 17:
			ts = r.Intn(T + 2)
			e, ok := s.LowerBound(sklKey(alpha, k, ts))
			c := cellOf(alpha, e)
			ev = append(ev, SmEvent{Ev: "LB", K: k, Ts: ts, Found: ok, Rk: c.K, Rts: c.Ts, Rv: c.V, Rtomb: c.Tomb})
		case x < 19:
			ts = r.Intn(T + 2)
			k2, ts2 := 1+r.Intn(K), r.Intn(T+2)
			es := s.Scan(sklKey(alpha, k, ts), sklKey(alpha, k2, ts2))
			ev = append(ev, SmEvent{Ev: "Scan", K: k, Ts: ts, K2: k2, Ts2: ts2, N: len(es), Sum: checksum(alpha, es)})
		default:
			es := s.All()
			ev = append(ev, SmEvent{Ev: "All", N: len(es), Sum: checksum(alpha, es)})
		}
	}
	es := s.All()
	ev = append(ev, SmEvent{Ev: "All", N: len(es), Sum: checksum(alpha, es)})
	return ev, map[string]any{"maxLevel": maxLevel, "p": p, "alphabet": alpha, "keys": K, "versions": T, "ops": nops}
}

func cmdSkl(args []string) int {
	fs := flag.NewFlagSet("skl", flag.ExitOnError)
	replays := fs.String("replays", "", "file with REPLAY lines exported by TLC (MC_Skiplist)")
	maxLevel := fs.Int("maxlevel", 2, "MaxLevel of the model that produced the replays")
	K := fs.Int("K", 2, "")
	T := fs.Int("T", 2, "")
	seed := fs.Int64("seed", 1, "")
	n := fs.Int("n", 100, "random sequences")
	ops := fs.Int("ops", 60, "operations per random sequence")
	out := fs.String("out", "", "output directory")
	_ = fs.Parse(args)
	mustMkdir(*out)
	summary := map[string]any{}
	if *replays != "" {
		f, err := os.Open(*replays)
		if err != nil {
			fmt.Fprintln(os.Stderr, err)
			return 2
		}
		sc := bufio.NewScanner(f)
		sc.Buffer(make([]byte, 1<<20), 1<<26)
		total, bad := 0, []map[string]any{}
		distinct := map[string]bool{}
		var sample []SklReplay
		for sc.Scan() {
			line := sc.Text()
			i := strings.Index(line, "{")
			if i < 0 {
				continue
			}
			var rp SklReplay
			if err := json.Unmarshal([]byte(line[i:]), &rp); err != nil {
				fmt.Fprintln(os.Stderr, "bad replay line:", err)
				return 2
			}
			for _, alpha := range []string{"plain", "adversarial:digits", "adversarial:huge"} {
				total++
				if msg := replayOne(rp, *maxLevel, alpha, *K, *T); msg != "" && len(bad) < 20 {
					bad = append(bad, map[string]any{"alphabet": alpha, "replay": rp, "mismatch": msg})
				}
			}
			distinct[fmt.Sprint(rp.Towers)] = true
			if len(sample) < 3 && len(rp.Path) >= 3 {
				sample = append(sample, rp)
			}
		}
		f.Close()
		summary["replays"] = total
		summary["distinct_structures"] = len(distinct)
		summary["mismatches"] = bad
		summary["samples"] = sample
	}
	// random sequences for TLC (TraceSortedMap)
	f, _ := os.Create(join(*out, "traces.ndjson"))
	bw := bufio.NewWriter(f)
	enc := json.NewEncoder(bw)
	offsets := []int{}
	var metas []map[string]any
	line := 0
	for i := 0; i < *n; i++ {
		r := rand.New(rand.NewSource(mix(*seed, i)))
		nops := *ops
		if i%10 == 9 {
			nops *= 10
		}
		ev, meta := randomSkl(r, nops)
		offsets = append(offsets, line+1)
		_ = enc.Encode(SmEvent{Ev: "Reset"})
		line++
		for _, e := range ev {
			_ = enc.Encode(e)
			line++
		}
		meta["id"] = fmt.Sprintf("skl-%d-%d", *seed, i)
		metas = append(metas, meta)
	}
	bw.Flush()
	f.Close()
	summary["traces"] = *n
	summary["events"] = line
	summary["offsets"] = offsets
	summary["metas"] = metas
	writeJSON(join(*out, "summary.json"), summary)
	return 0
}

var _ = sort.Ints
