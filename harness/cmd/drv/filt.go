package main

import (
	"bufio"
	"encoding/json"
	"flag"
	"fmt"
	"math/rand"
	"os"
	"sort"
	"strings"

	"github.com/B1NARY-GR0UP/originium"
	"github.com/B1NARY-GR0UP/originium/pkg/filter"
	"github.com/B1NARY-GR0UP/originium/types"
	"verif/harness/internal/dbx"
)

func init() { cmds["filt"] = cmdFilt }

type FiltEvent struct {
	Ev      string `json:"ev"`
	N       int    `json:"n"`
	Members int    `json:"members"`
	Denied  int    `json:"denied"`
	Shape   string `json:"shape"`
	Example string `json:"example"`
}

func filtKeys(r *rand.Rand, shape string, nkeys int) []string {
	keys := make([]string, 0, nkeys)
	seen := map[string]bool{}
	for len(keys) < nkeys {
		var k string
		switch shape {
		case "plain":
			k = fmt.Sprintf("key%07d", r.Intn(10*nkeys+10))
		case "at":
			k = fmt.Sprintf("a@%d@%d", r.Intn(nkeys+3), r.Intn(7))
		case "binary":
			b := make([]byte, 1+r.Intn(12))
			for i := range b {
				b[i] = byte(1 + r.Intn(255))
			}
			k = string(b)
		case "long":
			k = strings.Repeat("p", 300) + fmt.Sprint(r.Intn(10*nkeys+10))
		case "short":
			k = string(rune('a' + r.Intn(26)))
			if nkeys > 20 {
				k += fmt.Sprint(r.Intn(nkeys))
			}
		}
		if k == "" || seen[k] {
			continue
		}
		seen[k] = true
		keys = append(keys, k)
	}
	return keys
}

func cmdFilt(args []string) int {
	fs := flag.NewFlagSet("filt", flag.ExitOnError)
	seed := fs.Int64("seed", 1, "")
	big := fs.Bool("big", false, "include 10000 and 50000 entry sets")
	out := fs.String("out", "", "")
	_ = fs.Parse(args)
	mustMkdir(*out)
	dbx.Quiet()
	f, _ := os.Create(join(*out, "traces.ndjson"))
	bw := bufio.NewWriter(f)
	enc := json.NewEncoder(bw)
	sizes := []int{1, 2, 3, 7, 8, 9, 31, 100, 1000}
	if *big {
		sizes = append(sizes, 10000, 50000)
	}
	n := 0
	for si, size := range sizes {
		for ti, shape := range []string{"plain", "at", "binary", "long", "short"} {
			r := rand.New(rand.NewSource(mix(*seed, si*10+ti)))
			versions := 1 + r.Intn(4) // many versions of one key
			nkeys := (size + versions - 1) / versions
			keys := filtKeys(r, shape, nkeys)
			var es []types.Entry
			for ki, k := range keys {
				for v := 1; v <= versions && len(es) < size; v++ {
					e := types.Entry{Key: types.KeyWithTs(k, uint64(v)), Value: []byte("x"), Version: int64(v)}
					// deletions are entries too: some keys are deleted in every version, some in one
					if ki%5 == 3 || (ki%5 == 1 && v == versions) {
						e.Tombstone, e.Value = true, []byte{}
					}
					es = append(es, e)
				}
			}
			flt := filter.Build(es)
			ev := FiltEvent{Ev: "Build", N: len(es), Shape: shape}
			for i, e := range es {
				// lookups of keys that were never added, in between: whatever they answer, they must
				// not disturb the answers for members
				if i%2 == 0 {
					flt.Contains(fmt.Sprintf("absent-%d-%d", si, i))
				}
				ev.Members++
				if !flt.Contains(types.ParseKey(e.Key)) {
					ev.Denied++
					ev.Example = types.ParseKey(e.Key)
				}
			}
			_ = enc.Encode(ev)
			n++
			// the same set through a table file and recovery (filter rebuilt from the file)
			if size <= 1000 {
				dir := scratch("filt")
				v := originium.NewVerifLevels(dir, 4, 4, pick(r, 64, 4096), 0)
				sorted := append([]types.Entry(nil), es...)
				sortEntries(sorted)
				rv := FiltEvent{Ev: "Rebuilt", N: len(es), Shape: shape}
				if err := v.Flush(sorted); err == nil {
					held := FiltEvent{Ev: "Held", N: len(es), Shape: shape + "/flushed", Members: len(es)}
					if d := v.FilterDenied(); len(d) > 0 {
						held.Denied, held.Example = len(d), d[0]
					}
					_ = enc.Encode(held)
					n++
					v.Recover()
					held = FiltEvent{Ev: "Held", N: len(es), Shape: shape + "/recovered", Members: len(es)}
					if d := v.FilterDenied(); len(d) > 0 {
						held.Denied, held.Example = len(d), d[0]
					}
					_ = enc.Encode(held)
					n++
					for i, k := range keys {
						if i%2 == 0 {
							v.Lookup(fmt.Sprintf("absent-%d-%d", si, i), uint64(versions+1))
						}
						rv.Members++
						if _, ok := v.Lookup(k, uint64(versions+1)); !ok {
							rv.Denied++
							rv.Example = k
						}
					}
				} else {
					rv.Members, rv.Denied, rv.Example = 1, 1, err.Error()
				}
				v.Stop()
				os.RemoveAll(dir)
				_ = enc.Encode(rv)
				n++
			}
		}
	}
	// filters built by compaction (and rebuilt after it): several overlapping tables, cascades over
	// three levels, an advanced discard mark; after every step every filter the level manager holds
	// must admit every entry of its table
	for ci := 0; ci < 160; ci++ {
		r := rand.New(rand.NewSource(mix(*seed, 5000+ci)))
		shape := pick(r, "plain", "at", "binary", "long", "short")
		keys := filtKeys(r, shape, 3+r.Intn(pick(r, 3, 12)))
		dir := scratch("filtc")
		// half of the runs with the smallest level geometry: every flush cascades through the levels
		l0, ratio := 1+r.Intn(2), 1+r.Intn(2)
		if ci%2 == 0 {
			l0, ratio = 1, 1
		}
		v := originium.NewVerifLevels(dir, l0, ratio, pick(r, 1, 64, 4096), uint64(r.Intn(12)))
		ts, stored := 0, 0
		ev := FiltEvent{Ev: "Held", Shape: shape + "/compacted"}
		check := func() {
			ev.Members += stored
			if d := v.FilterDenied(); len(d) > 0 {
				ev.Denied += len(d)
				ev.Example = d[0]
			}
		}
		for t := 0; t < 6+r.Intn(8); t++ {
			var es []types.Entry
			for _, ki := range r.Perm(len(keys))[:1+r.Intn(pick(r, 2, len(keys)))] {
				ts++
				e := types.Entry{Key: types.KeyWithTs(keys[ki], uint64(ts)), Value: []byte("x"), Version: int64(ts)}
				if r.Intn(4) == 0 {
					e.Tombstone, e.Value = true, []byte{}
				}
				es = append(es, e)
			}
			sortEntries(es)
			if err := v.Flush(es); err != nil {
				ev.Denied++
				ev.Example = err.Error()
				break
			}
			stored += len(es)
			check()
			if r.Intn(3) == 0 {
				v.SetWatermark(uint64(pick(r, r.Intn(ts+2), ts)))
			}
			v.CheckAndCompact()
			check()
			if r.Intn(4) == 0 {
				v.Recover()
				check()
			}
		}
		ev.N = stored
		v.Stop()
		os.RemoveAll(dir)
		_ = enc.Encode(ev)
		n++
	}
	// size coincidences: a level-N table with p hot keys in v versions is merged into a level-N+1 table
	// holding one old version of the hot keys and q cold keys; with the discard mark above everything
	// the output has p+q entries - as many as the level-N input when q = p*(v-1), as many as the
	// level-N+1 input always, fewer than their sum. Whatever the counts, the output's filter must
	// admit every key of the output.
	for p := 1; p <= 3; p++ {
		for q := 0; q <= 4; q++ {
			for vs := 1; vs <= 2; vs++ {
				r := rand.New(rand.NewSource(mix(*seed, 9000+p*100+q*10+vs)))
				shape := pick(r, "plain", "at", "binary", "long", "short")
				keys := filtKeys(r, shape, p+q)
				sort.Strings(keys)
				// hot and cold keys interleaved so that the key ranges overlap
				var hot, cold []string
				for i, k := range keys {
					if (i%2 == 0 && len(hot) < p) || len(cold) >= q {
						hot = append(hot, k)
					} else {
						cold = append(cold, k)
					}
				}
				dir := scratch("filtm")
				v := originium.NewVerifLevels(dir, 1, 1, pick(r, 1, 64, 4096), 0)
				ev := FiltEvent{Ev: "Held", Shape: fmt.Sprintf("%s/moved-down p=%d q=%d v=%d", shape, p, q, vs)}
				stored := 0
				check := func() {
					ev.Members += stored
					if d := v.FilterDenied(); len(d) > 0 {
						ev.Denied += len(d)
						ev.Example = d[0]
					}
				}
				mk := func(ks []string, ts uint64) []types.Entry {
					var es []types.Entry
					for _, k := range ks {
						es = append(es, types.Entry{Key: types.KeyWithTs(k, ts), Value: []byte("x"), Version: int64(ts)})
					}
					sortEntries(es)
					return es
				}
				old := mk(append(append([]string(nil), hot...), cold...), 1)
				_ = v.Flush(old)
				stored += len(old)
				v.CompactL0()
				v.CompactLN(1) // the old table moves down to level 2
				check()
				for i := 0; i < vs; i++ {
					es := mk(hot, uint64(5+i))
					_ = v.Flush(es)
					stored += len(es)
				}
				v.CompactL0() // level 1: the hot keys in vs versions
				check()
				v.SetWatermark(uint64(5 + vs))
				v.CompactLN(1) // merged into the level-2 table, stale versions discarded
				check()
				v.Recover()
				check()
				ev.N = stored
				v.Stop()
				os.RemoveAll(dir)
				_ = enc.Encode(ev)
				n++
			}
		}
	}
	bw.Flush()
	f.Close()
	writeJSON(join(*out, "summary.json"), map[string]any{"traces": 1, "events": n, "offsets": []int{1}, "sizes": sizes})
	return 0
}

func sortEntries(es []types.Entry) {
	for i := 1; i < len(es); i++ {
		for j := i; j > 0 && types.CompareKeys(es[j].Key, es[j-1].Key) < 0; j-- {
			es[j], es[j-1] = es[j-1], es[j]
		}
	}
}
