// Package rec records API-level events of the real engine in the vocabulary of
// specs/TraceAbsTxn.tla. One mutex orders all events of a process: an invocation event
// is appended before the call starts and a response event after it returned, so the
// order in the file respects real time; no wall clock is involved.
package rec

import (
	"bufio"
	"encoding/json"
	"os"
	"sync"
)

type Event struct {
	Ev  string `json:"ev"`
	W   int    `json:"w"`
	Upd bool   `json:"upd"`
	K   int    `json:"k"`
	V   int    `json:"v"`
	Res string `json:"res"`
}

type Trace struct {
	mu sync.Mutex
	ev []Event
	// Mirror, if set, sees every event right after it was recorded (used to merge the API events
	// into the implementation-level hook stream of steered single-client runs).
	Mirror func(Event)
}

func (t *Trace) Add(e Event) {
	t.mu.Lock()
	t.ev = append(t.ev, e)
	m := t.Mirror
	t.mu.Unlock()
	if m != nil {
		m(e)
	}
}

func (t *Trace) Len() int {
	t.mu.Lock()
	defer t.mu.Unlock()
	return len(t.ev)
}

// Snapshot returns a copy of the events recorded so far.
func (t *Trace) Snapshot() []Event {
	t.mu.Lock()
	defer t.mu.Unlock()
	return append([]Event(nil), t.ev...)
}

// Writer appends traces to one ndjson file; every trace starts with a Reset event.
type Writer struct {
	f      *os.File
	w      *bufio.Writer
	Traces int
	Events int
	// Offsets[i] = 1-based line number of the Reset event of trace i
	Offsets []int
}

func NewWriter(path string) (*Writer, error) {
	f, err := os.Create(path)
	if err != nil {
		return nil, err
	}
	return &Writer{f: f, w: bufio.NewWriterSize(f, 1<<20)}, nil
}

func (w *Writer) WriteTrace(ev []Event) {
	w.Offsets = append(w.Offsets, w.Events+1)
	enc := json.NewEncoder(w.w)
	_ = enc.Encode(Event{Ev: "Reset"})
	w.Events++
	for _, e := range ev {
		_ = enc.Encode(e)
		w.Events++
	}
	w.Traces++
}

func (w *Writer) Close() error {
	if err := w.w.Flush(); err != nil {
		return err
	}
	return w.f.Close()
}
