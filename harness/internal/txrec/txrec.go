// Package txrec records the implementation-level event stream of the transaction layer in the
// vocabulary of specs/TraceTxn.tla: the API calls of every client (invocation and response) merged
// with the oracle/commit hooks that fire on the calling goroutine (orc.readts, orc.committs,
// cm.decided, cm.applied, cm.done). One mutex orders the events of one scenario; the oracle hooks
// fire while the oracle mutex (or the commit write lock) is still held, so their order in the
// stream is the order of those critical sections. Hooks are attributed to clients by goroutine id.
package txrec

import (
	"bufio"
	"encoding/json"
	"os"
	"runtime"
	"strconv"
	"sync"

	"verif/harness/internal/rec"
)

type Ev struct {
	Ev   string `json:"ev"`
	W    int    `json:"w"`
	Upd  bool   `json:"upd"`
	K    int    `json:"k"`
	V    int    `json:"v"`
	Res  string `json:"res"`
	Rts  int    `json:"rts"`
	Cts  int    `json:"cts"`
	Nc   int    `json:"nc"`
	Lc   int    `json:"lc"`
	Conf bool   `json:"conf"`
}

type Rec struct {
	mu  sync.Mutex
	ev  []Ev
	upd map[int]bool // argument of the Begin call in flight, per client
}

func New() *Rec { return &Rec{upd: map[int]bool{}} }

type binding struct {
	r *Rec
	w int
}

var bound sync.Map // goroutine id -> binding

func goid() uint64 {
	var buf [64]byte
	n := runtime.Stack(buf[:], false)
	// "goroutine 123 [running]:"
	s := buf[len("goroutine "):n]
	i := 0
	for i < len(s) && s[i] >= '0' && s[i] <= '9' {
		i++
	}
	id, _ := strconv.ParseUint(string(s[:i]), 10, 64)
	return id
}

// Bind attributes the hooks fired by the calling goroutine to client w of r.
func (r *Rec) Bind(w int) { bound.Store(goid(), binding{r, w}) }
func Unbind()             { bound.Delete(goid()) }

func (r *Rec) add(e Ev) {
	r.mu.Lock()
	r.ev = append(r.ev, e)
	r.mu.Unlock()
}

// API mirrors one recorded API event (see rec.Trace.Mirror).
func (r *Rec) API(e rec.Event) {
	if e.Ev == "BeginInv" {
		r.mu.Lock()
		r.upd[e.W] = e.Upd
		r.mu.Unlock()
	}
	r.add(Ev{Ev: e.Ev, W: e.W, Upd: e.Upd, K: e.K, V: e.V, Res: e.Res})
}

func num(a any) int {
	switch x := a.(type) {
	case int:
		return x
	case int64:
		return int(x)
	case uint64:
		return int(x)
	}
	return -1
}

// Hook is called from the verifhook gate; it ignores goroutines that are not bound.
func Hook(point string, args ...any) {
	switch point {
	case "orc.readts", "orc.committs", "cm.decided", "cm.applied", "cm.done":
	default:
		return
	}
	b, ok := bound.Load(goid())
	if !ok {
		return
	}
	r, w := b.(binding).r, b.(binding).w
	switch point {
	case "orc.readts":
		r.mu.Lock()
		u := r.upd[w]
		r.ev = append(r.ev, Ev{Ev: "readts", W: w, Rts: num(args[0]), Upd: u})
		r.mu.Unlock()
	case "orc.committs":
		r.add(Ev{Ev: "committs", W: w, Cts: num(args[0]), Rts: num(args[1]), Nc: num(args[2]), Lc: num(args[3])})
	case "cm.decided":
		r.add(Ev{Ev: "decided", W: w, Cts: num(args[0]), Conf: args[1].(bool), Rts: num(args[2])})
	case "cm.applied":
		r.add(Ev{Ev: "applied", W: w})
	case "cm.done":
		r.add(Ev{Ev: "done", W: w, Cts: num(args[0])})
	}
}

func (r *Rec) Snapshot() []Ev {
	r.mu.Lock()
	defer r.mu.Unlock()
	return append([]Ev(nil), r.ev...)
}

// Writer appends streams to one ndjson file; every stream starts with a Reset event.
type Writer struct {
	f       *os.File
	w       *bufio.Writer
	Events  int
	Offsets []int
}

func NewWriter(path string) (*Writer, error) {
	f, err := os.Create(path)
	if err != nil {
		return nil, err
	}
	return &Writer{f: f, w: bufio.NewWriterSize(f, 1<<20)}, nil
}

func (w *Writer) Write(ev []Ev) {
	w.Offsets = append(w.Offsets, w.Events+1)
	enc := json.NewEncoder(w.w)
	_ = enc.Encode(Ev{Ev: "Reset"})
	w.Events++
	for _, e := range ev {
		_ = enc.Encode(e)
		w.Events++
	}
}

func (w *Writer) Close() error {
	if err := w.w.Flush(); err != nil {
		return err
	}
	return w.f.Close()
}
