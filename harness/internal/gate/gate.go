// Package gate is the harness side of pkg/verifhook: it records implementation-level
// events, parks the background flusher at its yield points so that the harness decides
// when each flusher stage runs, serialises file-system operations (so that the directory
// between two operations is a well-defined crash image) and tracks synced/written lengths.
//
// One controller per process (the hook is process-wide): steered scenarios run one DB at
// a time and are spread over processes for parallelism.
package gate

import (
	"fmt"
	"os"
	"path/filepath"
	"strings"
	"sync"
	"time"

	"github.com/B1NARY-GR0UP/originium/pkg/verifhook"
)

type Event struct {
	Seq   int    `json:"seq"`
	Point string `json:"p"`
	Args  []any  `json:"a"`
}

type FileState struct {
	Written int64 `json:"written"`
	Synced  int64 `json:"synced"`
}

type Ctl struct {
	mu     sync.Mutex
	cond   *sync.Cond
	events []Event
	Record bool

	// flusher parking
	steer   bool
	parked  bool
	at      string
	atArgs  []any
	epoch   int
	grants  int
	exited  bool
	started bool

	// file-system serialisation and bookkeeping
	fsMu     sync.Mutex
	Files    map[string]*FileState          // base name -> lengths (as reported by hooks)
	OnFsPre  func(op, name string, n int)   // called with the fs token held, before the operation
	OnClient func(point string, args []any) // cm.* and cl.* points, called on the client goroutine
	FlDelay  time.Duration                  // free-running flusher sleeps this long at its yield points
	FsOps    int
	FsByKind map[string]int
}

func New() *Ctl {
	c := &Ctl{Files: map[string]*FileState{}, FsByKind: map[string]int{}}
	c.cond = sync.NewCond(&c.mu)
	return c
}

// Install makes c the process-wide gate.
func (c *Ctl) Install() { verifhook.SetGate(c.hook) }
func Uninstall()        { verifhook.SetGate(nil) }

// SteerFlusher: from now on the flusher parks at every fl.* yield point.
func (c *Ctl) SteerFlusher(on bool) {
	c.mu.Lock()
	c.steer = on
	if !on {
		c.cond.Broadcast()
	}
	c.mu.Unlock()
}

var flYield = map[string]bool{"fl.wait": true, "fl.take": true, "fl.flushed": true, "fl.compacted": true, "fl.removed": true}

func (c *Ctl) hook(point string, args ...any) {
	switch {
	case point == "fs.pre":
		c.fsMu.Lock() // released by the matching fs.post
		op, name, n := args[0].(string), args[1].(string), args[2].(int)
		c.mu.Lock()
		c.FsOps++
		c.FsByKind[op]++
		c.mu.Unlock()
		if c.OnFsPre != nil {
			c.OnFsPre(op, name, n)
		}
		c.record(point, args)
		return
	case point == "fs.post":
		op, name, n := args[0].(string), args[1].(string), args[2].(int)
		c.applyFs(op, name, n)
		c.record(point, args)
		c.fsMu.Unlock()
		return
	}
	c.record(point, args)
	if strings.HasPrefix(point, "fl.") {
		c.flusherAt(point, args)
	} else if c.OnClient != nil && (strings.HasPrefix(point, "cm.") || strings.HasPrefix(point, "cl.")) {
		c.OnClient(point, args)
	}
}

// Steering reports whether the flusher is being parked.
func (c *Ctl) Steering() bool {
	c.mu.Lock()
	defer c.mu.Unlock()
	return c.steer
}

func (c *Ctl) record(point string, args []any) {
	if !c.Record {
		return
	}
	// pointers (watermark identity) are not serialisable in a stable way: replace by a tag
	a := make([]any, len(args))
	for i, x := range args {
		switch v := x.(type) {
		case string, int, bool, uint64, int64:
			a[i] = v
		default:
			a[i] = fmt.Sprintf("%p", v)
		}
	}
	c.mu.Lock()
	c.events = append(c.events, Event{Seq: len(c.events) + 1, Point: point, Args: a})
	c.mu.Unlock()
}

func (c *Ctl) applyFs(op, name string, n int) {
	b := filepath.Base(name)
	c.mu.Lock()
	defer c.mu.Unlock()
	switch op {
	case "create":
		c.Files[b] = &FileState{}
	case "write":
		if f := c.Files[b]; f != nil {
			f.Written += int64(n)
		}
	case "sync":
		if f := c.Files[b]; f != nil {
			f.Synced = f.Written
		}
	case "rename":
		if f := c.Files[b]; f != nil {
			delete(c.Files, b)
			c.Files[strings.TrimSuffix(b, ".tmp")] = f
		}
	case "remove":
		delete(c.Files, b)
	}
}

// FileStates returns a copy of the per-file written/synced lengths.
func (c *Ctl) FileStates() map[string]FileState {
	c.mu.Lock()
	defer c.mu.Unlock()
	m := map[string]FileState{}
	for k, v := range c.Files {
		m[k] = *v
	}
	return m
}

// Adopt registers files that already exist (after a reopen) as fully synced.
func (c *Ctl) Adopt(dir string) {
	ents, _ := os.ReadDir(dir)
	c.mu.Lock()
	defer c.mu.Unlock()
	c.Files = map[string]*FileState{}
	for _, e := range ents {
		if info, err := e.Info(); err == nil && !e.IsDir() {
			c.Files[e.Name()] = &FileState{Written: info.Size(), Synced: info.Size()}
		}
	}
}

func (c *Ctl) flusherAt(point string, args []any) {
	c.mu.Lock()
	defer c.mu.Unlock()
	c.started = true
	if point == "fl.exit" {
		c.exited = true
		c.parked = false
		c.epoch++
		c.cond.Broadcast()
		return
	}
	if !flYield[point] {
		return
	}
	c.at, c.atArgs = point, args
	if !c.steer {
		if d := c.FlDelay; d > 0 && point != "fl.wait" {
			c.mu.Unlock()
			time.Sleep(d)
			c.mu.Lock()
		}
		return
	}
	c.parked = true
	c.epoch++
	c.cond.Broadcast()
	for c.steer && c.grants == 0 {
		c.cond.Wait()
	}
	if c.steer {
		c.grants--
	}
	c.parked = false
}

// NewDB must be called before each Open: the flusher of the new handle has not started.
func (c *Ctl) NewDB() {
	c.mu.Lock()
	c.exited, c.started, c.parked, c.grants, c.at = false, false, false, 0, ""
	c.mu.Unlock()
}

// WaitParked blocks until the flusher is parked at a yield point (or has exited) and
// returns the point ("" after exit).
func (c *Ctl) WaitParked() string {
	c.mu.Lock()
	defer c.mu.Unlock()
	for !c.parked && !c.exited {
		c.cond.Wait()
	}
	if c.exited {
		return ""
	}
	return c.at
}

// Where returns the yield point the flusher is parked at ("" if running or exited).
func (c *Ctl) Where() string {
	c.mu.Lock()
	defer c.mu.Unlock()
	if c.parked {
		return c.at
	}
	return ""
}

// Release lets the parked flusher run on without waiting for it (used when it must enter
// its select to receive a hand-off from the goroutine that calls Release).
func (c *Ctl) Release() {
	c.mu.Lock()
	c.grants++
	c.cond.Broadcast()
	c.mu.Unlock()
}

// Step releases the parked flusher and waits until it parks again (or exits); it returns
// the new yield point. The caller must know that the flusher can reach another yield point
// without the caller's help (i.e. not from fl.wait with an empty queue).
func (c *Ctl) Step() string {
	c.mu.Lock()
	for !c.parked && !c.exited {
		c.cond.Wait()
	}
	if c.exited {
		c.mu.Unlock()
		return ""
	}
	e := c.epoch
	c.grants++
	c.cond.Broadcast()
	for c.epoch == e {
		c.cond.Wait()
	}
	for !c.parked && !c.exited {
		c.cond.Wait()
	}
	at := c.at
	if c.exited {
		at = ""
	}
	c.mu.Unlock()
	return at
}

// Note appends a harness-made event (an API call) to the implementation-level stream.
func (c *Ctl) Note(point string, args ...any) {
	if !c.Record {
		return
	}
	c.mu.Lock()
	c.events = append(c.events, Event{Seq: len(c.events) + 1, Point: point, Args: args})
	c.mu.Unlock()
}

// Events returns the implementation-level events recorded so far.
func (c *Ctl) Events() []Event {
	c.mu.Lock()
	defer c.mu.Unlock()
	return append([]Event(nil), c.events...)
}

func (c *Ctl) ResetEvents() {
	c.mu.Lock()
	c.events = nil
	c.mu.Unlock()
}
