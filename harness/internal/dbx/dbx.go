// Package dbx wraps the real originium API and records every call in the vocabulary of
// specs/TraceAbsTxn.tla (invocation before the call, response after it returned).
package dbx

import (
	"errors"
	"fmt"

	"github.com/B1NARY-GR0UP/originium"
	"github.com/B1NARY-GR0UP/originium/pkg/logger"

	"verif/harness/internal/kvmap"
	"verif/harness/internal/rec"
)

// quiet logger: the engine logs every memtable set at INFO; Panicf must still panic.
type quiet struct{}

func (quiet) Debugf(string, ...any) {}
func (quiet) Infof(string, ...any)  {}
func (quiet) Warnf(string, ...any)  {}
func (quiet) Errorf(string, ...any) {}
func (quiet) Fatalf(string, ...any) {}
func (quiet) Panicf(f string, a ...any) {
	panic(fmt.Sprintf(f, a...))
}

func Quiet() { logger.SetLogger(quiet{}) }

type Store struct {
	DB  *originium.DB
	Dir string
	Cfg originium.Config
	T   *rec.Trace
	KM  *kvmap.Map
}

func Open(dir string, cfg originium.Config, t *rec.Trace, km *kvmap.Map, first bool) (*Store, error) {
	Quiet()
	db, err := originium.Open(dir, cfg)
	if err != nil {
		return nil, err
	}
	if !first {
		t.Add(rec.Event{Ev: "Open"})
	}
	return &Store{DB: db, Dir: dir, Cfg: cfg, T: t, KM: km}, nil
}

func (s *Store) Close() {
	s.DB.Close()
	s.T.Add(rec.Event{Ev: "Close"})
}

// Sess is one client ("worker" in the spec): at most one transaction at a time.
type Sess struct {
	S   *Store
	W   int
	Txn *originium.Txn
}

func (s *Store) Sess(w int) *Sess { return &Sess{S: s, W: w} }

func (c *Sess) Begin(upd bool) {
	c.S.T.Add(rec.Event{Ev: "BeginInv", W: c.W, Upd: upd})
	c.Txn = c.S.DB.Begin(upd)
	c.S.T.Add(rec.Event{Ev: "BeginResp", W: c.W})
}

func (c *Sess) Get(k int) int {
	b, ok := c.Txn.Get(c.S.KM.Key(k))
	v := kvmap.ValueID(k, ok, b)
	c.S.T.Add(rec.Event{Ev: "Get", W: c.W, K: k, V: v})
	return v
}

func errName(err error) string {
	switch {
	case err == nil:
		return "ok"
	case errors.Is(err, originium.ErrReadOnlyTxn):
		return "readonly"
	case errors.Is(err, originium.ErrDiscardedTxn):
		return "discarded"
	case errors.Is(err, originium.ErrConflictTxn):
		return "conflict"
	case errors.Is(err, originium.ErrEmptyKey):
		return "emptykey"
	case errors.Is(err, originium.ErrDBClosed):
		return "closed"
	}
	return "other:" + err.Error()
}

// Put: vid > 0 Set, vid == 0 Delete. k == 0 uses the empty key (misuse).
func (c *Sess) Put(k, vid int) string {
	key := ""
	if k > 0 {
		key = c.S.KM.Key(k)
	}
	var err error
	if vid == 0 {
		err = c.Txn.Delete(key)
	} else {
		err = c.Txn.Set(key, kvmap.Value(vid))
	}
	r := errName(err)
	c.S.T.Add(rec.Event{Ev: "Put", W: c.W, K: k, V: vid, Res: r})
	return r
}

func (c *Sess) Commit() string {
	c.S.T.Add(rec.Event{Ev: "CommitInv", W: c.W})
	r := errName(c.Txn.Commit())
	c.S.T.Add(rec.Event{Ev: "CommitResp", W: c.W, Res: r})
	return r
}

func (c *Sess) Discard() {
	if m := c.S.T.Mirror; m != nil {
		m(rec.Event{Ev: "DiscardInv", W: c.W}) // implementation-level streams only; not part of the API trace
	}
	c.Txn.Discard()
	c.S.T.Add(rec.Event{Ev: "Discard", W: c.W})
}

// ClosedCall issues View and Update on a closed handle; the closure must not run.
func (c *Sess) ClosedCall(update bool) string {
	ran := false
	fn := func(*originium.Txn) error { ran = true; return nil }
	var err error
	if update {
		err = c.S.DB.Update(fn)
	} else {
		err = c.S.DB.View(fn)
	}
	r := errName(err)
	if ran {
		r = "ran"
	}
	c.S.T.Add(rec.Event{Ev: "ClosedCall", W: c.W, Res: r})
	return r
}

// UpdateFailing runs DB.Update with a closure that writes and then fails: the engine must
// discard the transaction. Recorded as Begin, Puts, Discard.
func (c *Sess) UpdateFailing(puts [][2]int, fail error) {
	c.S.T.Add(rec.Event{Ev: "BeginInv", W: c.W, Upd: true})
	first := true
	err := c.S.DB.Update(func(t *originium.Txn) error {
		c.Txn = t
		c.S.T.Add(rec.Event{Ev: "BeginResp", W: c.W})
		first = false
		for _, p := range puts {
			c.Put(p[0], p[1])
		}
		return fail
	})
	if first {
		c.S.T.Add(rec.Event{Ev: "BeginResp", W: c.W})
	}
	_ = err
	c.S.T.Add(rec.Event{Ev: "Discard", W: c.W})
}
