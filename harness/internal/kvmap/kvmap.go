// Package kvmap is the abstraction map between model values (small integers) and the
// concrete byte strings handed to the engine (DESIGN.md section 3.6).
package kvmap

import (
	"bytes"
	"fmt"
	"strconv"
	"strings"
)

// Alphabets are lists of user keys in strictly increasing byte order.
var Alphabets = map[string][]string{
	// plain keys
	"plain": {"k01", "k02", "k03", "k04", "k05", "k06", "k07", "k08", "k09", "k10",
		"k11", "k12", "k13", "k14", "k15", "k16", "k17", "k18", "k19", "k20"},
	// keys containing '@', bytes below '@', shared prefixes, suffixes that look like timestamps:
	// raw "key@ts" string order differs from CompareKeys order for these.
	"adversarial": {"a", "a!", "a#", "a@", "a@1", "a@1@2", "a@9", "aa", "aa@", "ab!", "b", "b@0", "b@00",
		"b@1", "c", "c!", "c@@", "d@18446744073709551615", "e", "f"},
}

func init() {
	// long common prefix (~300 bytes)
	p := strings.Repeat("p", 300)
	var long []string
	for i := 1; i <= 20; i++ {
		long = append(long, fmt.Sprintf("%s%02d", p, i))
	}
	Alphabets["long"] = long
	// binary-ish keys (no NUL to keep file names/logging sane; bytes below '@' and above 0x7f)
	var bin []string
	for i := 1; i <= 20; i++ {
		bin = append(bin, string([]byte{0x01, byte(i), 0xff, '@', byte(0x30 + i%10)}))
	}
	Alphabets["binary"] = bin
}

type Map struct {
	Alphabet string
	keys     []string
	idx      map[string]int
}

func New(alphabet string, nkeys int) *Map {
	a, ok := Alphabets[alphabet]
	if !ok {
		panic("unknown alphabet " + alphabet)
	}
	if nkeys > len(a) {
		panic("too many keys")
	}
	m := &Map{Alphabet: alphabet, keys: a[:nkeys], idx: map[string]int{}}
	for i, k := range m.keys {
		m.idx[k] = i + 1
	}
	return m
}

func (m *Map) NKeys() int { return len(m.keys) }

// Key maps model key 1..n to its byte string.
func (m *Map) Key(k int) string { return m.keys[k-1] }

func (m *Map) KeyID(s string) int { return m.idx[s] }

// EmptyBase: value ids >= EmptyBase denote "the empty value written to key id-EmptyBase".
const EmptyBase = 900000

// BigBase: value ids in [BigBase, BigBase+100000) are 40 kB values.
const BigBase = 600000

var sizes = []int{0, 0, 12, 300, 5000}

// Value maps a value id (>0) to bytes. The id is recoverable from the bytes; the padding
// class is derived from the id so that 1 B, 16 B, 300 B and 5 kB values all occur.
func Value(vid int) []byte {
	if vid >= EmptyBase {
		return []byte{}
	}
	pad := sizes[vid%len(sizes)]
	if vid >= BigBase && vid < BigBase+100000 {
		pad = 40000 // a few of these in one transaction exceed 64 KiB (each one stays below the 16-bit length limit, D11)
	}
	var b bytes.Buffer
	b.WriteString("v")
	b.WriteString(strconv.Itoa(vid))
	b.WriteString("|")
	for i := 0; i < pad; i++ {
		b.WriteByte(byte('a' + (vid+i)%26))
	}
	return b.Bytes()
}

// ValueID recovers the value id from bytes returned by the engine for model key k.
// It returns -2 for bytes no write ever produced (corruption).
func ValueID(k int, found bool, b []byte) int {
	if !found {
		return 0
	}
	if len(b) == 0 {
		return EmptyBase + k
	}
	i := bytes.IndexByte(b, '|')
	if i < 2 || b[0] != 'v' {
		return -2
	}
	vid, err := strconv.Atoi(string(b[1:i]))
	if err != nil || vid <= 0 {
		return -2
	}
	if !bytes.Equal(b, Value(vid)) {
		return -2
	}
	return vid
}
