#!/bin/bash
# Run once after a fresh restore, offline: compile the harness and parse every specification.
cd "$(dirname "$0")" || exit 1
export GOFLAGS=-mod=mod GOPROXY=off
unset GOTOOLCHAIN GOSUMDB
mkdir -p .build evidence replays
cp /repo/go.sum harness/go.sum 2>/dev/null
( cd harness && go build -tags verif -o ../.build/drv ./cmd/drv ) || { echo "harness build failed"; exit 1; }
tmp=$(mktemp -d)
cp specs/*.tla "$tmp"/
rc=0
for f in "$tmp"/*.tla; do
  if ! ( cd "$tmp" && tla-sany "$(basename "$f")" > "$tmp/sany.out" 2>&1 ); then
    echo "SANY failed on $(basename "$f")"; tail -5 "$tmp/sany.out"; rc=1
  fi
done
rm -rf "$tmp"
exit $rc
