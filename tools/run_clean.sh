#!/bin/bash
# usage: run_clean.sh "<seeds>" [ids...]   runs quick checks on the unchanged tree, logs exit codes
seeds=${1:-"1 2 3"}; shift
ids=${@:-C01 C02 C03 C04 C05 C06 C07 C08 C09 C10 C11 C12 C13 C14 C15 C16 C17}
out=/verif/seeded/CLEAN_RUNS.txt
for s in $seeds; do
  for id in $ids; do
    t0=$(date +%s)
    o=$(cd /verif && VERIF_SEED=$s ./check $id --tier quick 2>&1); rc=$?
    t1=$(date +%s)
    echo "seed=$s $id rc=$rc $((t1-t0))s $(echo "$o" | grep -c '^VIOLATION') violations :: $(echo "$o" | grep -E '^property=' | tail -1 | cut -c1-160)" >> $out
    [ $rc -ne 0 ] && echo "$o" | grep -E "^VIOLATION|^MACHINERY|^INCONCLUSIVE" | head -5 | cut -c1-400 >> $out
  done
done
