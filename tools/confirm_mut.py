#!/usr/bin/env python3
"""Confirms an agent-written mutation in a scratch worktree of /repo and files it under
/verif/seeded/<id>/ :  (a) the patch applies, builds, and the whole existing suite passes with
it; (b) the demonstration fails with it; (c) the demonstration passes without it.
usage: confirm_mut.py <PROP> <mutation dir> [<name>]"""
import glob, json, os, re, shutil, subprocess, sys, tempfile, time

ENV = dict(os.environ, GOFLAGS="-mod=mod", GOPROXY="off")
ENV.pop("GOTOOLCHAIN", None)
ENV.pop("GOSUMDB", None)


def sh(cmd, cwd, timeout=1500):
    p = subprocess.run(cmd, cwd=cwd, shell=True, env=ENV, stdout=subprocess.PIPE, stderr=subprocess.STDOUT, text=True,
                       timeout=timeout)
    return p.returncode, p.stdout


def pkgdir(wt, pkg):
    if pkg == "originium":
        return "."
    for d in ["pkg/" + pkg, pkg]:
        if os.path.isdir(os.path.join(wt, d)):
            return "./" + d
    for f in glob.glob(os.path.join(wt, "**/*.go"), recursive=True):
        if "/MUT/" in f:
            continue
        if re.search(r"^package %s\b" % pkg, open(f).read(), re.M):
            return "./" + os.path.relpath(os.path.dirname(f), wt)
    return "."


def main():
    prop, mdir = sys.argv[1], os.path.abspath(sys.argv[2])
    name = sys.argv[3] if len(sys.argv) > 3 else "%s-%s" % (prop, os.path.basename(mdir))
    patch = os.path.join(mdir, "patch.diff")
    demos = [f for f in glob.glob(os.path.join(mdir, "**/*.go"), recursive=True)]
    wt = tempfile.mkdtemp(prefix="confwt-", dir="/tmp")
    os.rmdir(wt)
    res = dict(name=name, property=prop, confirmed=False)
    try:
        subprocess.run(["git", "-C", "/repo", "worktree", "add", "-q", "--detach", wt, "HEAD"], check=True)
        rc, out = sh("git apply '%s'" % patch, wt)
        res["applies"] = rc == 0
        if rc != 0:
            res["error"] = out[-500:]
            return res
        rc, out = sh("go build ./... && go build -tags verif ./... && go test -vet=off -count=1 ./...", wt)
        res["suite_passes_with_mutation"] = rc == 0
        if rc != 0:
            res["error"] = out[-800:]
        # demo placement
        placed, cmds = [], []
        for d in demos:
            src = open(d).read()
            m = re.search(r"^package (\w+)", src, re.M)
            pkg = m.group(1) if m else "originium"
            if pkg == "main":
                continue
            tags = ""
            tm = re.search(r"^//go:build (.*)$", src, re.M)
            if tm:
                tags = " ".join(re.findall(r"\w+", tm.group(1).replace("&&", " ")))
            pd = pkgdir(wt, pkg.replace("_test", ""))
            dst = os.path.join(wt, pd, "zz_" + os.path.basename(os.path.dirname(d)) + "_" + os.path.basename(d))
            if not dst.endswith("_test.go"):
                dst = dst[:-3] + "_test.go"
            shutil.copy(d, dst)
            placed.append(dst)
            tests = re.findall(r"^func (Test\w+)\(", src, re.M)
            cmds.append("go test %s -vet=off -count=1 -run '^(%s)$' %s" % (('-tags "%s"' % tags) if tags else "",
                                                                         "|".join(tests), pd))
        res["demo_cmds"] = cmds
        fails = 0
        for c in cmds:
            rc, out = sh(c, wt, timeout=1500)
            fails += 1 if rc != 0 else 0
            res.setdefault("demo_with_mutation", []).append(dict(rc=rc, tail=out[-300:]))
        res["demo_fails_with_mutation"] = fails > 0
        sh("git apply -R '%s'" % patch, wt)
        passes = 0
        for c in cmds:
            rc, out = sh(c, wt, timeout=1500)
            passes += 1 if rc == 0 else 0
            res.setdefault("demo_without_mutation", []).append(dict(rc=rc, tail=out[-300:]))
        res["demo_passes_without_mutation"] = passes == len(cmds) and len(cmds) > 0
        res["confirmed"] = bool(res.get("suite_passes_with_mutation") and res["demo_fails_with_mutation"]
                                and res["demo_passes_without_mutation"])
        return res
    finally:
        subprocess.run(["git", "-C", "/repo", "worktree", "remove", "--force", wt])
        shutil.rmtree(wt, ignore_errors=True)
        out = os.path.join("/verif/seeded", name)
        if res.get("confirmed"):
            os.makedirs(out, exist_ok=True)
            shutil.copy(patch, os.path.join(out, "patch.diff"))
            for d in demos:
                shutil.copy(d, os.path.join(out, os.path.basename(d) + ".txt"))   # .txt: keep go tooling away
            if os.path.exists(os.path.join(mdir, "NOTES.md")):
                shutil.copy(os.path.join(mdir, "NOTES.md"), os.path.join(out, "NOTES.md"))
            notes = open(os.path.join(mdir, "NOTES.md")).read() if os.path.exists(os.path.join(mdir, "NOTES.md")) else ""
            meta = dict(property=prop, source="independent sub-agent given only the property text",
                        needs_to_manifest=" ".join(notes.split("\n\n")[0].split())[:600],
                        confirmed_by="tools/confirm_mut.py in a scratch worktree of /repo",
                        ran=dict(suite_with_mutation="go build ./... && go test -vet=off -count=1 ./... -> pass",
                                 demo=res["demo_cmds"], demo_with_mutation="fails", demo_without_mutation="passes"),
                        caught_by=[])
            json.dump(meta, open(os.path.join(out, "meta.json"), "w"), indent=1)
        print(json.dumps({k: v for k, v in res.items() if k not in ("demo_with_mutation", "demo_without_mutation")}))


main()
