#!/usr/bin/env python3
"""Builds /verif/seeded/README.md and fills caught_by in every meta.json from RESULTS.txt."""
import json, os, re, collections
S = '/verif/seeded'
res = collections.defaultdict(dict)      # name -> check -> last outcome
cur = None
for ln in open(os.path.join(S, 'RESULTS.txt')):
    m = re.match(r"### (\S+) :: (.*)", ln)
    if m:
        p = m.group(1)
        mm = re.search(r"/wt/(C\d+)/MUT/(m\d+)/", p)
        cur = ("%s-%s" % (mm.group(1), mm.group(2))) if mm else os.path.basename(os.path.dirname(p))
        continue
    m = re.match(r"== (C\d+) rc=(-?\d+) (\d+)s :: (\d+) violation", ln)
    if m and cur:
        res[cur][m.group(1)] = dict(rc=int(m.group(2)), secs=int(m.group(3)), violations=int(m.group(4)))
rows = []
for name in sorted(os.listdir(S)):
    d = os.path.join(S, name)
    mp = os.path.join(d, 'meta.json')
    if not os.path.isfile(mp):
        continue
    meta = json.load(open(mp))
    r = res.get(name, {})
    caught = sorted(c for c, o in r.items() if o['rc'] == 1)
    missed = sorted(c for c, o in r.items() if o['rc'] == 0)
    other = sorted(c for c, o in r.items() if o['rc'] not in (0, 1))
    meta['caught_by'] = caught
    meta['not_caught_by_quick_tier_of'] = missed
    meta['checks_run'] = r
    json.dump(meta, open(mp, 'w'), indent=1)
    rows.append((name, meta['property'], caught, missed, other, meta.get('what') or meta.get('needs_to_manifest', '')[:160]))
with open(os.path.join(S, 'README.md'), 'w') as fh:
    fh.write("# Seeded changes used to test the machinery\n\n"
             "Each directory: `patch.diff` (applies to /repo HEAD), the demonstration (`*.go.txt`, NOTES.md) and `meta.json`.\n"
             "`C<nn>-m<i>`: written by an independent sub-agent that saw only the property text; confirmed with\n"
             "`tools/confirm_mut.py` (suite passes with the change, demo fails with it and passes without).\n"
             "`self-*`: reverted fixes and hand-written variants. Results are from the **quick** tier\n"
             "(`tools/trymut.sh`, scratch worktree, never /repo); last run per (mutation, check) counts.\n\n"
             "| mutation | property | caught by (quick) | quick tier silent | inconclusive | what |\n|---|---|---|---|---|---|\n")
    for name, prop, caught, missed, other, what in rows:
        fh.write("| %s | %s | %s | %s | %s | %s |\n" % (name, prop, " ".join(caught) or "—", " ".join(missed) or "—",
                                                   " ".join(other) or "—", what.replace("|", "/").replace("\n", " ")))
    n = len(rows)
    c = sum(1 for r in rows if r[2])
    fh.write("\n%d mutations, %d caught by at least one quick check.\n" % (n, c))
print("rows", len(rows))
