#!/bin/bash
# usage: runmuts.sh <listfile> [<results file>]   lines: <patch> <ID> [<ID>...]    appends to /verif/seeded/RESULTS.txt
OUT=${2:-/verif/seeded/RESULTS.txt}
while read -r patch ids; do
  [ -z "$patch" ] && continue
  echo "### $patch :: $ids" >> "$OUT"
  /verif/tools/trymut.sh $patch $ids 2>&1 | grep -E "^== |^MACHINERY|^INCONCLUSIVE" >> "$OUT"
done < "$1"
