#!/bin/bash
# usage: runmuts.sh <listfile>   lines: <patch> <ID> [<ID>...]    appends to /verif/seeded/RESULTS.txt
while read -r patch ids; do
  [ -z "$patch" ] && continue
  echo "### $patch :: $ids" >> /verif/seeded/RESULTS.txt
  /verif/tools/trymut.sh $patch $ids 2>&1 | grep -E "^== |^MACHINERY|^INCONCLUSIVE" >> /verif/seeded/RESULTS.txt
done < "$1"
