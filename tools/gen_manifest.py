#!/usr/bin/env python3
"""Generates MANIFEST.json from the table below (single source of truth for the registered checks)."""
import json, os, subprocess

V = os.path.dirname(os.path.dirname(os.path.abspath(__file__)))

MC = "model_checking"
CHECKS = {
 "C01": dict(tech="TLC model checking of Store.tla + TLC trace validation of steered real executions against AbsTxn.tla",
    text="TLC explores every interleaving of commit sub-steps, flusher stages and compactions of the storage design in small bounds with the read invariant in every state; the real engine is then driven through seeded single-client scripts with the flusher parked at its yield points (every stage released by the script, all keys read after every step) and every recorded API history is judged by TLC against the contract AbsTxn.tla.",
    note="bounded model (2-3 keys, <=5 commits); real executions sample Config/inputs/flusher timings, they do not enumerate them; byte strings are represented by key/value classes; trusted: TLC, the recorder (harness/internal/rec), the hook call sites"),
 "C02": dict(tech="TLC trace validation of close/reopen histories against AbsTxn.tla (Close/Open actions) + TLC model of recovery",
    text="Seeded histories with Close/Open cycles at arbitrary positions (non-empty flush queue, right after a rotation, empty memtable, Config re-drawn) are executed on the real engine; TLC judges each recorded history against the contract, in which Open must expose exactly the committed state and later commits must supersede it.",
    note="sampling of histories and configurations; L0TargetNum/LevelRatio fixed per directory as the property says"),
 "C03": dict(tech="TLC model checking of Crash.tla (crash at every file-system step, recovery as steps) + crash-image enumeration on the real code judged by TLC trace validation against AbsTxn.tla (Crash/Open actions)",
    text="Crash.tla makes every file-system operation of committer, flusher, compaction, Close and recovery its own action with Crash enabled in every state; TLC checks Durable/OpenOk/Fresh. On the real code every file-system failpoint hit by steered workloads yields a crash image (directory copied while the engine is held before the operation); each distinct image is recovered in a fresh child process and the stitched history (workload prefix, Crash, Open, reads, commit, close, reopen, reads) is judged by TLC against the contract. The file-system + hook stream of every uncrashed run is additionally replayed on Crash.tla by TraceCrash.tla (implementation level: a rejection is reported as drift, not as a violation).",
    note="process-crash model of the property; workloads/schedules are seeded samples, failpoints within a run are enumerated completely; second-level (crash during recovery) images in the thorough tier"),
 "C04": dict(tech="TLC trace validation of crash-image histories against AbsTxn.tla with AtomicInflight=TRUE vs FALSE + TLC invariant Atomic on Crash.tla",
    text="The same image enumeration on multi-key transactions; a recovered history is a C04 violation when the whole-or-nothing contract rejects it while the per-key contract accepts it, i.e. exactly when a transaction is visible partially.",
    note="quantifier is crash points (not lost unsynced tails), as in the property"),
 "C14": dict(tech="TLC model checking of Crash.tla with TornTails + torn-tail variants of every crash image judged by TLC trace validation",
    text="Per file the harness tracks written vs synced length from the fs hooks; every crash image is additionally recovered with each unsynced tail cut back (synced, synced+1, middle, written-1; thorough: every byte of short tails). Open must succeed and every acknowledged commit must be visible (contract with per-key in-flight semantics). In addition the fsync discipline is validated on strace-recorded system calls (TraceFs.tla), and real wal files cut at EVERY byte offset are read back with WAL.Read and judged by TraceWal.tla (WalLog.tla models the read loop).",
    note="directory operations assumed ordered and durable (as the property says); truncation is the only in-file fault"),
 "C05": dict(tech="TLC model checking of Txn.tla (refinement of AbsTxn) + hint-free TLC trace validation of concurrent and steered long-reader executions",
    text="Txn.tla (oracle, watermarks, commit pipeline, one action per critical section) is model-checked to refine the contract (SnapshotReads, GcSafe, CommitMarkSound in every state), with deviation switches as self-test. Real executions: concurrent goroutines with seeded delays at hook points, and steered scripts holding up to three long-lived readers open across every flusher stage and compaction; TLC searches all placements of the unobservable linearization points; only rejections at a Get/Begin are attributed to C05. The API + oracle/commit hook stream of every concurrent scenario is additionally replayed on Txn.tla (asynchronous watermarks) by TraceTxn.tla (implementation level: drift, not a verdict).",
    note="bounded model (<=3 clients, 2 keys); schedules of the real code are sampled (seeded), not enumerated"),
 "C06": dict(tech="TLC model checking of Txn.tla + hint-free TLC trace validation of concurrent histories (acceptance by AbsTxn = strict serializability)",
    text="Acceptance of a recorded concurrent history by AbsTxn.tla (ExactConflict=FALSE) is strict serializability with the commit order as serial order; TLC performs the complete search over linearization points for every trace; Txn.tla is model-checked (also with asynchronous watermark consumers) to agree with the contract on every Get and every commit decision; the oracle/commit hook stream of every scenario is replayed on it by TraceTxn.tla (drift level).",
    note="<=5 client goroutines, 2-4 shared keys per scenario; schedules sampled"),
 "C07": dict(tech="TLC model checking of Txn.tla (Agrees, CleanupSafe) + TLC trace validation with the exact (iff) conflict rule",
    text="LPCommit of AbsTxn.tla refuses iff a store-read key was committed after the snapshot; both directions are checked on every recorded Commit of the real engine by trace validation with ExactConflict=TRUE, and on the design by TLC (over-abort and under-abort flags, cleanup of committedTxns).",
    note="fingerprint collisions among <=20 keys ignored (p<1e-17); schedules sampled"),
 "C08": dict(tech="TLC trace validation of abandon/misuse histories against AbsTxn.tla + TLC invariant NoTrace on Txn.tla",
    text="Scripts abandon a seeded fraction of transactions at every point (Discard, failing Update closure, conflict) between commits, flusher stages and reopens and issue every misuse call; values identify the writing transaction, so any leaked write is a value the contract never committed; misuse answers are fixed by the contract.",
    note="sampling of abandon points; misuse calls issued one condition at a time"),
 "C13": dict(tech="TLC model checking of Watermark.tla (safety + liveness under fairness) + TLC trace validation of real WaterMark executions with silent channel/consumer steps",
    text="Watermark.tla mirrors the code (bounded FIFO channel, pending map, heap, consumer Take/Store/Wake, waiters); TLC checks Monotone, NeverPasses (on the FIFO-linearised history), CatchesUp, WaitSound, WaitLive and the liveness form under weak fairness, with four deviation switches as self-test. Every call sequence up to length 3 (thorough 4) over Begin/Done of 3 indices, WaitForMark and the end of a parked wait's context, random longer sequences and concurrent drivers are executed on the real WaterMark; each recorded execution (calls, returns, DoneUntil observations, quiescence) is validated by TLC against the same module.",
    note="bounded model (<=3 clients, 3 indices, <=6 calls); readings fixed in DESIGN.md section 6 C13 (lag, a Done finishes an earlier Begin); 'eventually' observations use the consumer's hook count, timeouts >= 3 s"),
 "C09": dict(tech="TLC model checking of Levels.tla (compaction cascade with version discard) + replay of every TLC initial scenario on a real level manager + TLC trace validation against TraceLookup.tla",
    text="Levels.tla models table structure, the per-table lookup, the best-over-tables level lookup, overlap selection, merge and discardStaleEntries; from every sequence of flushed tables x watermark x block size TLC runs the compaction cascade and checks CompactionPreserves and OnlyShadowedDisappear in every state. Each scenario is replayed on a real level manager through the verif accessor (flush, lookup, checkAndCompact, lookup, recover, lookup) and compared with the spec's answers; random larger runs are judged by TLC against the lookup contract.",
    note="exhaustive only for the 2x2 version universe with <= 2 tables; larger universes sampled; level shape (disjointness) is not part of the verdict"),
 "C10": dict(tech="TLC model checking of Levels.tla (LookupCorrect over all tables of a small universe) + replay of every TLC scenario on the real tables + TLC trace validation against TraceLookup.tla",
    text="For every set of versions distributed over tables, every block size (1-3 entries), every (key, ts) query and both bloom-filter answers for absent keys, TLC checks that filter -> block lower bound -> in-block lower bound -> same-key test -> best over tables equals the newest version <= ts. The scenarios are replayed on the real level manager (also after rebuilding the handles from the files) and compared with the spec's answers.",
    note="exhaustive for 2 keys x 2 versions (<= 2 tables); thorough adds 2x3 and 3x2 single tables; bloom false positives are covered in the model only (the real filter is not forced into one)"),
 "C11": dict(tech="TLC model checking of Codec.tla (field layout with width-limited lengths) and Pool.tla (buffer ownership) + TLC trace validation of real encode/decode results against TraceCodec.tla",
    text="Codec.tla enumerates all entry lists of a small class universe through an abstract Data.Encode/Decode with W-bit length fields (RoundTrip holds iff every length fits; the truncation is pinpointed otherwise) and Pool.tla checks that no returned result aliases a pooled buffer. The real codecs are driven with lists built from the same classes at the real boundaries (16-bit), and returned slices are re-compared after concurrent encoder/wal activity; TLC judges the recorded results against the contract (always equal).",
    note="the family fits this property least: byte strings are sampled per class; known finding D11 (lengths >= 65536 truncated) is reported as KNOWN-FINDING"),
 "C15": dict(tech="TLC model checking of Conc.tla (deadlock freedom as invariant, termination of every call under weak fairness) + watchdog stress runs judged by TLC trace validation (Close/Open)",
    text="Conc.tla keeps only the blocking structure: oracle.writeLock, db.mu, levelManager.mu, flushC with capacity 0..2, the Close handshake and the commit mark Begin waits for; TLC shows that the only state without a successor is 'all calls returned and closed', that Close implies the flusher stopped with nothing queued, and under weak fairness that every call returns; four deviation switches (send under db.mu, lock-order inversion, missing doneCommit, exit with a non-empty queue) are found. Real stress scenarios (ending in a burst of rotating commits and a Close with flushes pending) run under a watchdog; wal files left behind by Close are counted; the recorded history including Close and the immediate reopen is judged against AbsTxn.tla.",
    note="bounded model (<=3 clients); real schedules sampled; Close concurrent with in-flight calls is outside the property"),
 "C16": dict(tech="TLC model checking of Filter.tla (no false negative for arbitrary hash functions) + TLC trace validation of real filter.Build/Contains and recovery-rebuilt filters against TraceFilter.tla",
    text="Filter.tla proves, for every assignment of hash functions of a small instance, that an added key is never denied, and flags mismatched seeds and the versioned-vs-user key pairing. The real filter is built from generated entry sets (1..50000 entries, five key shapes, several versions per key) and queried for every member, directly and through a table file whose handle is rebuilt by recovery; after flushes, compaction cascades and recoveries every filter the level manager holds is asked for every entry of its table (verif accessor FilterDenied); TLC validates the aggregate events.",
    note="essentially a pure function: the model adds the contract and the ParseKey pairing; hashing arithmetic is exercised, not modelled"),
 "C12": dict(tech="TLC trace validation of concurrent histories produced under the Go race detector (sensor for the lock discipline)",
    text="Concurrent scenarios (thresholds down to 1 byte, queue length 0..4, seeded delays at hook points) run in a harness built with -race; a race report or panic is a violation, and every recorded history must be accepted by AbsTxn.tla.",
    note="the memory-model clause is decided by the race detector for the schedules executed, not for all schedules; TLA+ contributes the allowed-results oracle"),
 "C17": dict(tech="TLC model checking of Skiplist.tla (explicit towers, all heights) + replay of every TLC-generated transition on the real skiplist + TLC trace validation of random runs against TraceSortedMap.tla",
    text="Skiplist.tla mirrors Set/Delete with the update[] vector and nondeterministic tower heights; TLC checks in every state that the level-1 chain is the sorted map, values/tombstones match, Get and LowerBound agree with the map and every level is a subsequence of the one below. Every transition TLC generates is exported (operation path + expected towers) and replayed on the real list with scripted randomLevel draws, comparing towers and Get/LowerBound/Scan/All for every probe; random runs with maxLevel 1..12 and p 0.01..0.99 are judged by TLC against the sorted-map contract.",
    note="bounded model (2 keys x 2-3 versions, maxLevel <= 3, <= 4 operations); beyond it only sampled sequences; hook: verif-tagged VerifSetRandSource/VerifTowers"),
}

def main():
    checks = []
    for pid, c in sorted(CHECKS.items()):
        checks.append(dict(property_id=pid, quick_cmd="./check %s --tier quick" % pid,
                           thorough_cmd="./check %s --tier thorough" % pid,
                           evidence_file="/verif/evidence/%s.json" % pid,
                           replay_cmd_template="./check %s --replay {path}" % pid,
                           engine="tlc+harness",
                           level_claimed=dict(category=MC, text=c["text"], design_ref="DESIGN.md section 6, " + pid),
                           level_note=c["note"], technique=c["tech"]))
    props = [json.loads(l)["id"] for l in open(os.path.join(V, "properties.jsonl"))]
    na = [dict(property_id=p, reason="check not built yet in this session (planned, see DESIGN.md section 6)")
          for p in props if p not in CHECKS]
    try:
        commits = subprocess.run(["git", "-C", "/repo", "log", "--format=%h %s", "8b9579e..HEAD"], capture_output=True,
                                 text=True).stdout.splitlines()
    except Exception:
        commits = []
    m = dict(version=1,
             setup_cmd="./setup.sh",
             hooks=dict(guard="verif", enable="go build -tags verif (harness module /verif/harness, replace => /repo)",
                        baseline_off_cmd="cd /repo && GOFLAGS=-mod=mod GOPROXY=off go test -vet=off -count=1 ./...",
                        source_commits=[c.split()[0] for c in commits if c.split(" ", 1)[1].startswith("verif:")],
                        add_only=True),
             engines=[dict(name="tlc+harness", path="/verif/check", serves_properties=sorted(CHECKS),
                           kind_free_text="TLA+ specifications (specs/) checked with TLC; Go conformance harness (harness/) "
                                          "drives the real code, records traces and replays TLC-generated scenarios")],
             checks=checks, not_applicable=na,
             notes="Every check: ./check <ID> [--tier quick|thorough] [--replay <path>]; VERIF_SEED seeds all random choices.")
    json.dump(m, open(os.path.join(V, "MANIFEST.json"), "w"), indent=1)
    print("checks:", len(checks), "not_applicable:", len(na))

main()
