#!/bin/bash
# usage: trymut.sh <patch.diff> <ID> [<ID>...]   (env TIER=quick|thorough, VERIF_SEED)
# Applies a mutation to a scratch worktree of /repo (never to /repo itself), runs the checks
# against that tree (VERIF_REPO), removes the worktree. One summary line per check.
patch=$(readlink -f "$1"); shift
wt=$(mktemp -d /tmp/mutwt-XXXXXX)
git -C /repo worktree add -q --detach "$wt" HEAD || exit 2
trap 'git -C /repo worktree remove --force "$wt" 2>/dev/null; rm -rf "$wt"' EXIT
( cd "$wt" && { git apply "$patch" 2>/dev/null || git apply --3way "$patch" >/dev/null 2>&1; } ) || { echo "patch does not apply"; exit 2; }
for id in "$@"; do
  t0=$(date +%s)
  out=$(cd /verif && VERIF_REPO="$wt" ./check $id --tier ${TIER:-quick} 2>&1)
  rc=$?
  t1=$(date +%s)
  echo "== $id rc=$rc $((t1-t0))s :: $(echo "$out" | grep -c '^VIOLATION') violation lines"
  echo "$out" | grep -E "^MACHINERY|^KNOWN|^INCONCLUSIVE" | head -3 | cut -c1-600
  echo "$out" | grep -A2 "^VIOLATION" | grep -v "^--" | sed -n 1,3p | cut -c1-500
done
