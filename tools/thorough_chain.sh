#!/bin/bash
# usage: thorough_chain.sh <ID>...   runs the thorough tier of each check in turn, prints one summary line each
cd "$(dirname "$0")/.."
for p in "$@"; do
  s=$(date +%s)
  ./check "$p" --tier thorough > "/tmp/thorough-$p.log" 2>&1
  rc=$?
  echo "THOROUGH $p rc=$rc secs=$(( $(date +%s) - s )) :: $(grep -E '^property=|^VIOLATION|^MACHINERY|^INCONCLUSIVE' /tmp/thorough-$p.log | head -3 | cut -c1-300 | tr '\n' ' ')"
done
